//! Conformance checks of one concretised behaviour against the real code.


use peppi::game::{port_occupancy, Game as GameTrait};
use peppi::io::slippi;
use serde_json::json;

use crate::cols;
use crate::expect::{compare, compare_cells, expected, same_cols, same_prefix, CmpOpts, ECols};
use crate::gen::{Beh, Built};
use crate::layout::LayoutDb;
use crate::real::{self, Comp};
use crate::util::{first_diff, guard, guard_plain, Outcome};

#[derive(Debug, Clone, serde::Serialize)]
pub struct Viol {
	/// which check found it
	pub check: String,
	/// model-derived class of the failure (used for known-findings signatures)
	pub class: String,
	/// "panic" | "err" | "mismatch" | "hang" | "abort"
	pub kind: String,
	pub detail: String,
}

pub fn viol(check: &str, class: &str, kind: &str, detail: String) -> Viol {
	Viol {
		check: check.into(),
		class: class.into(),
		kind: kind.into(),
		detail,
	}
}

fn outcome_viol<T>(check: &str, class: &str, o: &Outcome<T>) -> Viol {
	viol(check, class, o.kind(), o.detail())
}

/// Class of a behaviour for signatures: regime, and the shape features the model distinguishes.
pub fn shape_class(beh: &Beh) -> String {
	let nframes = beh.fin.ids.len();
	let absent = beh.fin.pre.iter().any(|c| c.toks.iter().any(|t| *t == 0));
	let mut s = format!("regime:{}", beh.reg);
	if nframes == 0 {
		s.push_str(",frames=0");
	}
	if beh.occ.iter().all(|o| o == "none") {
		s.push_str(",ports=0");
	}
	if absent {
		s.push_str(",absent-char");
	}
	if beh.file_end != "single" {
		s.push_str(&format!(",end={}", beh.file_end));
	}
	if beh.meta == "none" {
		s.push_str(",meta=none");
	}
	s
}

pub struct Ctx<'a> {
	pub db: &'a LayoutDb,
	pub beh: &'a Beh,
	pub built: &'a Built,
	pub exp: ECols,
}

impl<'a> Ctx<'a> {
	pub fn new(db: &'a LayoutDb, beh: &'a Beh, built: &'a Built) -> Self {
		let exp = expected(db, &beh.occ, &beh.fin, built);
		Ctx { db, beh, built, exp }
	}

	fn expected_gecko(&self) -> Option<(Vec<u8>, u32)> {
		if self.beh.fin.gecko.is_empty() {
			None
		} else {
			let mut b = vec![];
			for t in &self.beh.fin.gecko {
				b.extend_from_slice(&self.built.ev_bufs[*t - 1][1..513]);
			}
			Some((b, self.beh.fin.gactual))
		}
	}

	/// Game-level observables (start, end, gecko, metadata presence, quirks) against the model.
	pub fn check_game_level(&self, check: &str, g: &peppi::game::immutable::Game, with_quirk: bool, out: &mut Vec<Viol>) {
		let cls = shape_class(self.beh);
		if g.start.bytes.0 != self.built.start_block {
			out.push(viol(check, &cls, "mismatch", "start block not retained verbatim".into()));
		}
		let v = g.start.slippi.version;
		if [v.0, v.1, v.2] != self.built.ver {
			out.push(viol(check, &cls, "mismatch", format!("version {:?}", v)));
		}
		match (&g.end, self.beh.fin.gend != 0) {
			(Some(e), true) => {
				if e.bytes.0 != self.built.end_block {
					out.push(viol(check, &cls, "mismatch", "end block not retained verbatim".into()));
				}
			}
			(None, false) => {}
			(e, m) => out.push(viol(
				check,
				&cls,
				"mismatch",
				format!("game end present={} model={}", e.is_some(), m),
			)),
		}
		match (&g.gecko_codes, self.expected_gecko()) {
			(None, None) => {}
			(Some(a), Some((b, n))) => {
				if a.bytes != b || a.actual_size != n {
					out.push(viol(check, &cls, "mismatch", "gecko codes differ".into()));
				}
			}
			(a, b) => out.push(viol(
				check,
				&cls,
				"mismatch",
				format!("gecko present={} model={}", a.is_some(), b.is_some()),
			)),
		}
		if g.metadata.is_some() != (self.beh.meta == "some") {
			out.push(viol(
				check,
				&cls,
				"mismatch",
				format!("metadata present={} model={}", g.metadata.is_some(), self.beh.meta),
			));
		}
		let q = g.quirks.map_or(false, |q| q.double_game_end);
		if with_quirk && q != self.beh.fin.quirk {
			out.push(viol(check, &cls, "mismatch", format!("double_game_end quirk={} model={}", q, self.beh.fin.quirk)));
		}
	}

	/// C01: read the file, write the game back, the bytes must be identical.
	pub fn c01_roundtrip(&self, out: &mut Vec<Viol>) {
		let cls = shape_class(self.beh);
		let g = match real::read_slp_noopts(&self.built.bytes) {
			Outcome::Ok(g) => g,
			o => {
				out.push(outcome_viol("slp_read", &cls, &o));
				return;
			}
		};
		// history: an earlier write of this game on this thread failed part-way (sink full); what follows
		// must not depend on it
		{
			let other = crate::gen::build_beh(self.db, self.beh, &crate::gen::GenOpts::new(crate::util::fnv(&self.built.bytes), self.built.ver));
			if let Outcome::Ok(gx) = real::read_slp_noopts(&other.bytes) {
				let h = crate::util::fnv(&other.bytes);
				real::fail_write_slp(&gx, if h % 2 == 0 { (h / 2) as usize % other.bytes.len() } else { other.bytes.len() - 1 - (h / 2) as usize % other.bytes.len().min(64) });
			}
		}
		match real::write_slp(&g) {
			Outcome::Ok(w) => {
				if let Some(i) = first_diff(&w, &self.built.bytes) {
					out.push(viol(
						"slp_roundtrip",
						&cls,
						"mismatch",
						format!(
							"written file differs at byte {} (len {} vs {}); raw_len declared {} vs {}",
							i,
							w.len(),
							self.built.bytes.len(),
							if w.len() >= 15 { u32::from_be_bytes([w[11], w[12], w[13], w[14]]) } else { 0 },
							self.built.raw_len
						),
					));
				}
			}
			o => out.push(outcome_viol("slp_write", &cls, &o)),
		}
		// a sink that takes a few bytes per call (and is interrupted now and then) receives the same bytes
		match real::write_slp_short(&g, 1 + self.built.bytes.len() % 13) {
			Outcome::Ok(w) => {
				if let Some(i) = first_diff(&w, &self.built.bytes) {
					out.push(viol("slp_write_short_sink", &cls, "mismatch", format!("written through a sink that accepts {} bytes per call: differs at byte {}", 1 + self.built.bytes.len() % 13, i)));
				}
			}
			o => out.push(outcome_viol("slp_write_short_sink", &cls, &o)),
		}
		// writing the same game object a second time gives the same bytes (nothing is consumed or left behind)
		if let (Outcome::Ok(w1), Outcome::Ok(w2)) = (real::write_slp(&g), real::write_slp(&g)) {
			if w1 != w2 {
				out.push(viol("slp_write_twice", &cls, "mismatch", "two writes of the same game differ".into()));
			}
		}
		// the replay does not start at position 0 of its stream
		{
			let k = 1 + (crate::util::fnv(&self.built.bytes) % 300) as usize;
			let mut data = vec![0x7Bu8; k];
			data.extend_from_slice(&self.built.bytes);
			data.extend_from_slice(b"U\x03raw");
			let mut cur = std::io::Cursor::new(&data[..]);
			cur.set_position(k as u64);
			match guard(|| slippi::read(&mut cur, None)) {
				Outcome::Ok(g2) => match real::write_slp(&g2) {
					Outcome::Ok(w) => {
						if let Some(i) = first_diff(&w, &self.built.bytes) {
							out.push(viol("slp_roundtrip_stream_offset", &cls, "mismatch", format!("replay at stream offset {}: written file differs at byte {}", k, i)));
						}
					}
					o => out.push(outcome_viol("slp_roundtrip_stream_offset", &cls, &o)),
				},
				o => out.push(viol("slp_roundtrip_stream_offset", &cls, o.kind(), format!("replay at stream offset {}: {}", k, o.detail()))),
			}
		}
		// read with the debug option (dumps every event into a directory): the game is the same game
		if crate::util::fnv(&self.built.bytes) % 8 == 0 && self.built.bytes.len() < 1 << 20 {
			let dir = std::env::temp_dir().join(format!("pv-debug-{}-{:x}", std::process::id(), crate::util::fnv(&self.built.bytes)));
			let opts = slippi::de::Opts { skip_frames: false, compute_hash: false, debug: Some(slippi::de::Debug { dir: dir.clone() }), ..Default::default() };
			let res = guard(|| slippi::read(std::io::Cursor::new(&self.built.bytes[..]), Some(&opts)));
			let _ = std::fs::remove_dir_all(&dir);
			match res {
				Outcome::Ok(gd) => match real::write_slp(&gd) {
					Outcome::Ok(w) => {
						if let Some(i) = first_diff(&w, &self.built.bytes) {
							out.push(viol("slp_roundtrip_debug_opt", &cls, "mismatch", format!("read with the debug option: written file differs at byte {}", i)));
						}
					}
					o => out.push(outcome_viol("slp_roundtrip_debug_opt", &cls, &o)),
				},
				o => out.push(outcome_viol("slp_roundtrip_debug_opt", &cls, &o)),
			}
		}
		// the same file arriving in short reads: still read, still written back identically
		let frag = if self.built.bytes.len() % 2 == 0 { crate::stream::Frag::RandomIntr(self.built.bytes.len() as u64) } else { crate::stream::Frag::Fixed(1 + self.built.bytes.len() % 6) };
		let mut r = crate::stream::FragReader::new(&self.built.bytes, frag.clone());
		// (and the stream can only move forward: a full read has no reason to seek anywhere else)
		r.forward_only = true;
		// (every other file with the hash requested: the bytes then pass through the hashing wrapper)
		let fopts = slippi::de::Opts { skip_frames: false, compute_hash: self.built.bytes.len() % 4 < 2, debug: None, ..Default::default() };
		match guard(|| slippi::read(&mut r, Some(&fopts))) {
			Outcome::Ok(g2) => match real::write_slp(&g2) {
				Outcome::Ok(w) => {
					if let Some(i) = first_diff(&w, &self.built.bytes) {
						out.push(viol("slp_roundtrip_fragmented", &cls, "mismatch", format!("read through {:?}: written file differs at byte {}", frag, i)));
					}
				}
				o => out.push(outcome_viol("slp_roundtrip_fragmented", &cls, &o)),
			},
			o => out.push(viol("slp_roundtrip_fragmented", &cls, o.kind(), format!("{:?}: {}", frag, o.detail()))),
		}
	}

	/// C03: every exposed column (in memory, Arrow view, row view) holds the value at the TLA+
	/// offset of its field; the set of columns is the set of fields the version has.
	pub fn c03_fields(&self, arrow_too: bool, rows_too: bool, out: &mut Vec<Viol>) {
		let cls = shape_class(self.beh);
		let g = match real::read_slp_noopts(&self.built.bytes) {
			Outcome::Ok(g) => g,
			o => {
				out.push(outcome_viol("slp_read", &cls, &o));
				return;
			}
		};
		let c = cols::from_immutable(&g.frames);
		if let Some(m) = compare(&self.exp, &c, &CmpOpts { presence: true, rows: None, missing_ok_if_empty: false }) {
			out.push(viol("field_values", &cls, "mismatch", m));
		}
		if rows_too {
			let n = GameTrait::len(&g);
			match guard_plain(|| (0..n).map(|i| GameTrait::frame(&g, i)).collect::<Vec<_>>()) {
				Outcome::Ok(rows) => {
					let rc = cols::from_rows(&rows);
					if let Some(m) = compare(&self.exp, &rc, &CmpOpts { presence: false, rows: None, missing_ok_if_empty: true }) {
						out.push(viol("field_values_rowview", &cls, "mismatch", m));
					}
				}
				o => out.push(viol("field_values_rowview", &cls, o.kind(), o.detail())),
			}
		}
		if arrow_too {
			let ver = g.start.slippi.version;
			let ports = port_occupancy(&g.start);
			match guard_plain(|| g.frames.into_struct_array(ver, &ports)) {
				Outcome::Ok(arr) => match cols::from_struct_array(&arr) {
					Ok(ac) => {
						if let Some(m) = compare(&self.exp, &ac, &CmpOpts { presence: true, rows: None, missing_ok_if_empty: false }) {
							out.push(viol("field_values_arrow", &cls, "mismatch", m));
						}
					}
					Err(e) => out.push(viol("field_values_arrow", &cls, "mismatch", e)),
				},
				o => out.push(viol("field_values_arrow", &cls, o.kind(), o.detail())),
			}
		}
	}

	/// C04 on the finished game: rows, presence, cell placement and item grouping mirror the history.
	pub fn c04_oneshot(&self, out: &mut Vec<Viol>) {
		let cls = shape_class(self.beh);
		let g = match real::read_slp_noopts(&self.built.bytes) {
			Outcome::Ok(g) => g,
			o => {
				out.push(outcome_viol("slp_read", &cls, &o));
				return;
			}
		};
		let c = cols::from_immutable(&g.frames);
		if let Some(m) = compare_cells(&self.exp, &c, None) {
			out.push(viol("rows_mirror_history", &cls, "mismatch", m));
		}
	}

	/// C04 / C12 / C13 (in-progress): drive the incremental API event by event.
	/// mode "c04": closed rows against the model (cell placement); "c12": every call against the
	/// one-shot result for the same bytes, consumed-byte count, monotone row count;
	/// "c13": the in-progress row view of every closed row against the in-progress columns.
	pub fn incremental(&self, mode: &str, frag: crate::stream::Frag, out: &mut Vec<Viol>) {
		let cls = shape_class(self.beh);
		let b = &self.built.bytes;
		let oneshot = if mode == "c12" {
			match real::read_slp_noopts(b) {
				Outcome::Ok(g) => Some(cols::from_immutable(&g.frames)),
				o => {
					out.push(outcome_viol("slp_read", &cls, &o));
					return;
				}
			}
		} else {
			None
		};
		// the options of the one-shot reader are accepted by every incremental call; what a call consumes,
		// counts and stores does not depend on them (driven on the fixed-size fragmentation)
		let opts_v = match (&frag, mode) {
			(crate::stream::Frag::Fixed(_), "c12") => Some(slippi::de::Opts { skip_frames: true, compute_hash: true, debug: None, ..Default::default() }),
			_ => None,
		};
		let opts = opts_v.as_ref();
		let mut r = crate::stream::FragReader::new(&b[..], frag);
		let hdr = guard(|| slippi::de::parse_header(&mut r, opts));
		let raw_len = match hdr {
			Outcome::Ok(n) => n,
			o => {
				out.push(outcome_viol("inc_header", &cls, &o));
				return;
			}
		};
		if raw_len != self.built.raw_len {
			out.push(viol("inc_header", &cls, "mismatch", format!("raw_len {}", raw_len)));
		}
		let mut st = match guard(|| slippi::de::parse_start(&mut r, opts)) {
			Outcome::Ok(s) => s,
			o => {
				out.push(outcome_viol("inc_start", &cls, &o));
				return;
			}
		};
		let consumed = |pos: usize| pos - self.built.raw_start;
		if st.bytes_read() != consumed(r.position()) {
			out.push(viol("inc_bytes_read", &cls, "mismatch", format!("after start: {} vs {}", st.bytes_read(), consumed(r.position()))));
		}
		let mut last_rows = 0usize;
		for (k, e) in self.beh.hist.iter().enumerate() {
			let code = match guard(|| slippi::de::parse_event(&mut r, &mut st, opts)) {
				Outcome::Ok(c) => c,
				o => {
					out.push(viol("inc_event", &cls, o.kind(), format!("event {} ({}): {}", k + 1, e.k, o.detail())));
					return;
				}
			};
			// (the code returned by parse_event is not part of any listed property and is not compared)
			let _ = code;
			if st.bytes_read() != consumed(r.position()) {
				out.push(viol("inc_bytes_read", &cls, "mismatch", format!("after event {}: {} vs {}", k + 1, st.bytes_read(), consumed(r.position()))));
				return;
			}
			let frames = st.frames();
			// (behaviours of environments that do not export the per-step row counts: only the byte accounting,
			// the returned code and the monotone row count are checked per step)
			let (nrows, closed) = if self.beh.steps.len() > k { (self.beh.steps[k][0], self.beh.steps[k][1]) } else { (frames.len(), 0) };
			if frames.len() != nrows {
				out.push(viol("inc_rows", &cls, "mismatch", format!("after event {}: {} rows, model {}", k + 1, frames.len(), nrows)));
				return;
			}
			if frames.len() < last_rows {
				out.push(viol("inc_rows", &cls, "mismatch", format!("row count decreased at event {}", k + 1)));
			}
			// the frame count as the Game trait reports it is the number of rows
			if GameTrait::len(&st) != frames.len() {
				out.push(viol("inc_rows", &cls, "mismatch", format!("after event {}: Game::len() = {} but the frame columns have {} rows", k + 1, GameTrait::len(&st), frames.len())));
				return;
			}
			last_rows = frames.len();
			let c = cols::from_mutable(frames);
			match mode {
				"c04" => {
					if let Some(m) = compare_cells(&self.exp, &c, Some(closed)) {
						out.push(viol("inc_rows_mirror_history", &cls, "mismatch", format!("after event {} ({} closed rows): {}", k + 1, closed, m)));
						return;
					}
				}
				"c12" => {
					if let Some(m) = same_prefix(oneshot.as_ref().unwrap(), &c, closed, true) {
						out.push(viol("inc_vs_oneshot", &cls, "mismatch", format!("after event {} ({} completed rows): {}", k + 1, closed, m)));
						return;
					}
				}
				"c13" => {
					if closed > 0 {
						match guard_plain(|| (0..closed).map(|i| GameTrait::frame(&st, i)).collect::<Vec<_>>()) {
							Outcome::Ok(rows) => {
								if let Some(m) = rows_vs_cols(&cols::from_rows(&rows), &c, closed) {
									out.push(viol("inc_rowview", &cls, "mismatch", format!("after event {}: {}", k + 1, m)));
									return;
								}
							}
							o => {
								out.push(viol("inc_rowview", &cls, o.kind(), o.detail()));
								return;
							}
						}
					}
				}
				_ => panic!("incremental mode {}", mode),
			}
		}
		if mode == "c12" {
			// metadata through the incremental API, then the whole game equals the one-shot game
			let tail = guard(|| -> peppi::io::Result<()> {
				use std::io::Read;
				let mut b1 = [0u8; 1];
				// a driver that feeds one event per call until the raw element is used up also feeds the
				// duplicated Game End some Slippi versions write
				// (and the unknown events of the tail)
				let ntail = self.beh.tail_unk[0] + self.beh.tail_unk[1] + (self.beh.file_end == "double") as usize;
				for _ in 0..ntail {
					let before = st.bytes_read();
					slippi::de::parse_event(&mut r, &mut st, opts)?;
					if st.bytes_read() != consumed(r.position()) || st.bytes_read() <= before {
						return Err(peppi::io::Error::InvalidData(format!("bytes_read after an event of the tail (duplicated Game End / unknown event): {} vs {}", st.bytes_read(), consumed(r.position()))).into());
					}
				}
				// skip junk inside the raw element, as the one-shot reader does
				let pos = r.position();
				if pos < self.built.raw_end {
					r.set_position(self.built.raw_end);
				}
				r.read_exact(&mut b1)?;
				if b1[0] == 0x55 {
					slippi::de::parse_metadata(&mut r, &mut st, opts)?;
				}
				Ok(())
			});
			if !tail.is_ok() {
				out.push(viol("inc_metadata", &cls, tail.kind(), tail.detail()));
				return;
			}
			match real::read_slp_noopts(b) {
				Outcome::Ok(g) => {
					if GameTrait::metadata(&st) != &g.metadata {
						out.push(viol("inc_vs_oneshot", &cls, "mismatch", "metadata differs".into()));
					}
					if GameTrait::end(&st).as_ref().map(|e| &e.bytes.0) != g.end.as_ref().map(|e| &e.bytes.0) {
						out.push(viol("inc_vs_oneshot", &cls, "mismatch", "game end differs".into()));
					}
					let s1 = GameTrait::start(&st);
					if s1.bytes != g.start.bytes || format!("{:?}", s1) != format!("{:?}", g.start) {
						out.push(viol("inc_vs_oneshot", &cls, "mismatch", "game start differs".into()));
					}
					if GameTrait::gecko_codes(&st) != &g.gecko_codes {
						out.push(viol("inc_vs_oneshot", &cls, "mismatch", "gecko codes differ".into()));
					}
				}
				o => out.push(outcome_viol("slp_read", &cls, &o)),
			}
		}
	}

	/// C13 (finished representation): the row view of every row equals the columns at that index;
	/// version-absent fields are reported as absent; items are the slice between the row's offsets.
	pub fn rowview(&self, out: &mut Vec<Viol>) {
		let cls = shape_class(self.beh);
		let g = match real::read_slp_noopts(&self.built.bytes) {
			Outcome::Ok(g) => g,
			o => {
				out.push(outcome_viol("slp_read", &cls, &o));
				return;
			}
		};
		let n = GameTrait::len(&g);
		let colsv = cols::from_immutable(&g.frames);
		if colsv.leaves["id"].vals.len() != n {
			out.push(viol("rowview_len", &cls, "mismatch", format!("len() {} but {} frame ids", n, colsv.leaves["id"].vals.len())));
			return;
		}
		let ver = g.start.slippi.version;
		let rows = guard_plain(|| (0..n).map(|i| GameTrait::frame(&g, i)).collect::<Vec<_>>());
		let rows2 = guard_plain(|| (0..n).map(|i| g.frames.transpose_one(i, ver)).collect::<Vec<_>>());
		match (rows, rows2) {
			(Outcome::Ok(rows), Outcome::Ok(rows2)) => {
				let rc = cols::from_rows(&rows);
				if rc != cols::from_rows(&rows2) {
					out.push(viol("rowview", &cls, "mismatch", "Game::frame differs from Frame::transpose_one".into()));
				}
				if let Some(m) = rows_vs_cols(&rc, &colsv, n) {
					out.push(viol("rowview", &cls, "mismatch", m));
				}
				// structure of each row: the game's ports in order, follower exactly for two-character ports
				for (i, fr) in rows.iter().enumerate() {
					let got: Vec<String> = fr.ports.iter().map(|p| format!("{}", p.port)).collect();
					let want: Vec<String> = g.frames.ports.iter().map(|p| format!("{}", p.port)).collect();
					if got != want {
						out.push(viol("rowview", &cls, "mismatch", format!("row {} ports {:?} expected {:?}", i, got, want)));
						break;
					}
					for (pd, cp) in fr.ports.iter().zip(g.frames.ports.iter()) {
						if pd.follower.is_some() != cp.follower.is_some() {
							out.push(viol("rowview", &cls, "mismatch", format!("row {} port {} follower presence", i, pd.port)));
						}
					}
					if fr.start.is_some() != g.frames.start.is_some()
						|| fr.end.is_some() != g.frames.end.is_some()
						|| fr.items.is_some() != g.frames.item.is_some()
					{
						out.push(viol("rowview", &cls, "mismatch", format!("row {} start/end/items presence", i)));
						break;
					}
				}
			}
			(a, b) => {
				if !a.is_ok() {
					out.push(viol("rowview", &cls, a.kind(), a.detail()));
				}
				if !b.is_ok() {
					out.push(viol("rowview", &cls, b.kind(), b.detail()));
				}
			}
		}
		// the same for the game as it comes back from a .slpp archive (another producer of the finished representation)
		if let Outcome::Ok(g0) = real::read_slp_noopts(&self.built.bytes) {
			if let Outcome::Ok(arch) = real::write_slpp(g0, Comp::all()[n % 3]) {
				if let Outcome::Ok(g2) = real::read_slpp(&arch, false) {
					let n2 = GameTrait::len(&g2);
					let c2 = cols::from_immutable(&g2.frames);
					match guard_plain(|| (0..n2).map(|i| GameTrait::frame(&g2, i)).collect::<Vec<_>>()) {
						Outcome::Ok(rows) => {
							if let Some(m) = rows_vs_cols(&cols::from_rows(&rows), &c2, n2) {
								out.push(viol("rowview_slpp", &cls, "mismatch", m));
							}
						}
						o => out.push(viol("rowview_slpp", &cls, o.kind(), o.detail())),
					}
				}
			}
		}
	}

	/// The schema tree the TLA+ layout prescribes for this version and occupancy.
	pub fn expected_schema(&self) -> cols::SchemaNode {
		expected_schema(self.db, self.built.ver, &self.beh.occ)
	}

	/// C14: Arrow struct array schema, values, validity; import and re-serialise.
	pub fn arrow(&self, out: &mut Vec<Viol>) {
		let cls = shape_class(self.beh);
		let g = match real::read_slp_noopts(&self.built.bytes) {
			Outcome::Ok(g) => g,
			o => {
				out.push(outcome_viol("slp_read", &cls, &o));
				return;
			}
		};
		let mem = cols::from_immutable(&g.frames);
		let ver = g.start.slippi.version;
		let ports = port_occupancy(&g.start);
		let peppi::game::immutable::Game { start, end, frames, metadata, gecko_codes, hash, quirks } = g;
		let arr = match guard_plain(|| frames.into_struct_array(ver, &ports)) {
			Outcome::Ok(a) => a,
			o => {
				out.push(viol("arrow_export", &cls, o.kind(), o.detail()));
				return;
			}
		};
		use arrow2::array::Array;
		let schema = cols::schema_of("frame", arr.data_type());
		let want = self.expected_schema();
		if schema != want {
			out.push(viol(
				"arrow_schema",
				&cls,
				"mismatch",
				format!("schema differs: got {} expected {}", serde_json::to_string(&schema).unwrap(), serde_json::to_string(&want).unwrap()),
			));
		}
		if arr.len() != self.beh.fin.ids.len() {
			out.push(viol("arrow_rows", &cls, "mismatch", format!("{} rows, model {}", arr.len(), self.beh.fin.ids.len())));
		}
		match cols::from_struct_array(&arr) {
			Ok(ac) => {
				if let Some(m) = same_cols(&mem, &ac, true) {
					out.push(viol("arrow_values", &cls, "mismatch", format!("exported vs in-memory: {}", m)));
				}
				// validity bits mark exactly the absent characters of the history
				if ac.present != self.exp.present {
					out.push(viol("arrow_validity", &cls, "mismatch", "validity bits differ from the characters' presence in the history".into()));
				}
			}
			Err(e) => out.push(viol("arrow_values", &cls, "mismatch", e)),
		}
		let back = match guard_plain(|| peppi::frame::immutable::Frame::from_struct_array(arr, ver)) {
			Outcome::Ok(f) => f,
			o => {
				out.push(viol("arrow_import", &cls, o.kind(), o.detail()));
				return;
			}
		};
		let g2 = peppi::game::immutable::Game { start, end, frames: back, metadata, gecko_codes, hash, quirks };
		match real::write_slp(&g2) {
			Outcome::Ok(w) => {
				if let Some(i) = first_diff(&w, &self.built.bytes) {
					out.push(viol("arrow_reserialise", &cls, "mismatch", format!("differs at byte {}", i)));
				}
			}
			o => out.push(outcome_viol("arrow_reserialise", &cls, &o)),
		}
	}

	/// C17: the accepted (irregular) game serialises to a self-consistent file and a fixed point.
	/// `self.built` is the irregular input x; `canon` is the concretisation of the model's emission.
	pub fn c17(&self, canon: &Built, out: &mut Vec<Viol>) {
		let cls = format!("{},junk={}", shape_class(self.beh), self.beh.junk);
		// C17 speaks of the games the reader ACCEPTS.  Acceptance itself is demanded elsewhere only for unknown
		// events (C08) and for an absent Game End / metadata (C01); a reader that refuses junk after Game End or a
		// non-canonical event order does not break C17.
		let known: Vec<usize> = self.beh.hist.iter().filter(|e| e.k != "unk").map(|e| e.tok).collect();
		let mut emitted: Vec<usize> = self.beh.emit.iter().map(|e| e.tok).collect();
		emitted.dedup();
		let acceptance_demanded = self.beh.junk == 0 && known == emitted;
		self.fixed_point_clauses(&self.built.bytes, Some(&canon.bytes), acceptance_demanded, &cls, out);
	}

	/// The three clauses of C17 on one accepted file: declared raw length = measured length, re-read equal, second
	/// write identical; `canon`: the bytes the writer is expected to emit, when the model predicts them.
	pub fn fixed_point_clauses(&self, bytes: &[u8], canon: Option<&[u8]>, acceptance_demanded: bool, cls: &str, out: &mut Vec<Viol>) {
		let cls = cls.to_string();
		let g = match real::read_slp_noopts(bytes) {
			Outcome::Ok(g) => g,
			Outcome::Err(_) if !acceptance_demanded => return,
			o => {
				out.push(outcome_viol("tolerated_read", &cls, &o));
				return;
			}
		};
		let w1 = match real::write_slp(&g) {
			Outcome::Ok(w) => w,
			o => {
				out.push(outcome_viol("tolerated_write", &cls, &o));
				return;
			}
		};
		// a sink that takes a few bytes per call receives the same file
		match real::write_slp_short(&g, 1 + w1.len() % 61) {
			Outcome::Ok(ws) => {
				if let Some(i) = first_diff(&ws, &w1) {
					out.push(viol("tolerated_write_short_sink", &cls, "mismatch", format!("written through a sink that accepts {} bytes per call: differs at byte {}", 1 + w1.len() % 61, i)));
				}
			}
			o => out.push(outcome_viol("tolerated_write_short_sink", &cls, &o)),
		}
		// (1) declared raw length = actual length of the raw element, measured by an independent walk
		match walk_raw(&w1) {
			Ok((declared, actual)) => {
				if declared != actual {
					out.push(viol("declared_length", &cls, "mismatch", format!("declared raw length {} but the raw element is {} bytes", declared, actual)));
				}
			}
			Err(e) => out.push(viol("declared_length", &cls, "mismatch", format!("written file is not walkable: {}", e))),
		}
		// the model's prediction of the written file
		if let Some(canon) = canon {
			if let Some(i) = first_diff(&w1, canon) {
				out.push(viol("canonical_emission", &cls, "mismatch", format!("written file differs from the model's emission at byte {} (len {} vs {})", i, w1.len(), canon.len())));
			}
		}
		// (2) re-read: same start, end, metadata, gecko codes, frame data
		let g2 = match real::read_slp_noopts(&w1) {
			Outcome::Ok(g) => g,
			o => {
				out.push(outcome_viol("reread", &cls, &o));
				return;
			}
		};
		if g.start.bytes != g2.start.bytes || format!("{:?}", g.start) != format!("{:?}", g2.start) {
			out.push(viol("reread", &cls, "mismatch", "start differs".into()));
		}
		if g.end != g2.end {
			out.push(viol("reread", &cls, "mismatch", "end differs".into()));
		}
		if g.metadata != g2.metadata {
			out.push(viol("reread", &cls, "mismatch", "metadata differs".into()));
		}
		if g.gecko_codes != g2.gecko_codes {
			out.push(viol("reread", &cls, "mismatch", "gecko codes differ".into()));
		}
		if let Some(m) = same_cols(&cols::from_immutable(&g.frames), &cols::from_immutable(&g2.frames), true) {
			out.push(viol("reread", &cls, "mismatch", format!("frame data: {}", m)));
		}
		// (3) fixed point
		match real::write_slp(&g2) {
			Outcome::Ok(w2) => {
				if let Some(i) = first_diff(&w2, &w1) {
					out.push(viol("fixed_point", &cls, "mismatch", format!("second write differs at byte {}", i)));
				}
			}
			o => out.push(outcome_viol("fixed_point", &cls, &o)),
		}
	}

	/// The files of C08's first half: the behaviour's file with unknown (declared) events inserted at every event
	/// boundary after Game Start, one at a time, several at once, and after Game End.
	pub fn insertion_variants(&self, o: &crate::gen::GenOpts) -> Vec<(String, Built)> {
		let evs = crate::gen::file_events(self.beh);
		let first_ge = evs.iter().position(|e| e.k == "ge");
		// boundaries: before every event up to and including the first Game End; after a single Game End
		let mut positions: Vec<usize> = (0..=first_ge.unwrap_or(evs.len())).collect();
		if self.beh.file_end != "none" {
			// (after a single Game End, and after its duplicate)
			positions.push(evs.len());
		}
		let unk = |code: u8, tok: usize| crate::gen::AEvent { k: "unk".into(), id: 0, p: 0, f: 0, x: code as i64, tok };
		let mut variants: Vec<(String, Vec<crate::gen::AEvent>)> = vec![];
		for (j, pos) in positions.iter().enumerate() {
			let mut v = evs.clone();
			v.insert(*pos, unk(if j % 2 == 0 { 0x40 } else { 0x7F }, 100000 + j));
			variants.push((format!("one@{}", pos), v));
		}
		// several insertions, repeated codes, adjacent unknown events
		let mut r = crate::util::Rng::keyed(o.seed, 0xC08, evs.len() as u64);
		for k in 0..3 {
			let mut v = evs.clone();
			let lim = first_ge.unwrap_or(evs.len());
			for j in 0..(2 + k) {
				let pos = r.below(lim as u64 + 1) as usize;
				v.insert(pos.min(v.len()), unk(if r.chance(1, 2) { 0x40 } else { 0x7F }, 200000 + 10 * k + j));
			}
			variants.push((format!("multi{}", k), v));
		}
		// two and three unknown events after Game End (single or duplicated)
		if self.beh.file_end != "none" {
			for k in 2..=3usize {
				let mut v = evs.clone();
				for j in 0..k {
					v.push(unk(if j % 2 == 0 { 0x7F } else { 0x40 }, 300000 + 10 * k + j));
				}
				variants.push((format!("after_end_x{}", k), v));
			}
		}
		// many different unknown codes: the payload table may declare up to 84 event types
		{
			let mut v = evs.clone();
			let lim = first_ge.unwrap_or(evs.len());
			for (j, code) in [0x41u8, 0x50, 0x5F, 0x66, 0x7E].iter().enumerate() {
				let pos = (j * 3) % (lim + 1);
				v.insert(pos.min(v.len()), unk(*code, 400000 + j));
			}
			variants.push(("many_codes".into(), v));
		}
		let l = self.db.for_version(self.built.ver[0], self.built.ver[1]);
		let table: Vec<String> = self.beh.table.iter().filter(|k| l.gecko || (*k != "gecko" && *k != "split")).cloned().collect();
		variants
			.into_iter()
			.map(|(name, v)| {
				let mut oo = o.clone();
				if name == "many_codes" {
					// 60 declared codes, most of them never used
					for c in 0x41u8..=0x7E {
						oo.unk_sizes.insert(c, 1 + (c as u16 % 9));
					}
				}
				// sizes incl. the largest a payload table can declare
				let pick = (crate::util::fnv(&self.built.bytes) % 4) as usize;
				oo.unk_sizes.insert(0x40, [1u16, 7, 600, 65535][pick]);
				oo.unk_sizes.insert(0x7F, [600u16, 65534, 1, 7][pick]);
				let last_is_end = v.last().map_or(false, |e| e.k == "ge");
				let with = crate::gen::build_file(self.db, &self.beh.occ, &v, &table, self.beh.fin.gactual, self.beh.meta == "some", 0, &oo);
				(format!("{}{}", name, if last_is_end { "" } else { ",end_not_last" }), with)
			})
			.collect()
	}

	/// C17 on files whose known events are longer than their version prescribes (payload sizes from the table, not
	/// from the version): if the reader accepts them, what it writes is measured, re-read and written again.
	pub fn c17_sizes(&self, o: &crate::gen::GenOpts, out: &mut Vec<Viol>) {
		let l = self.db.for_version(self.built.ver[0], self.built.ver[1]);
		// the block lengths the reader accepts (from the TLA+ chain of length-gated groups) beyond the version's own
		let starts: Vec<usize> = self.db.blocks.start_len_outcome.iter().enumerate().filter(|(n, g)| **g >= 0 && *n > l.start_len && (*n == self.db.blocks.start_len_outcome.len() - 1 || self.db.blocks.start_len_outcome[*n + 1] != **g)).map(|(n, _)| n).collect();
		let ends: Vec<usize> = self.db.blocks.end_len_outcome.iter().enumerate().filter(|(n, g)| **g >= 0 && *n > l.end_len).map(|(n, _)| n).collect();
		let mut variants: Vec<(usize, Option<usize>, Option<usize>)> = vec![(3, Some(l.start_len), Some(l.end_len))];
		for e in ends.iter().take(3) {
			variants.push((0, Some(l.start_len), Some(*e)));
		}
		if let Some(s0) = starts.first() {
			variants.push((0, Some(*s0), Some(l.end_len)));
			variants.push((2, Some(*starts.last().unwrap()), ends.last().copied().or(Some(l.end_len))));
		}
		for (extra, sl, el) in variants {
			let mut oo = o.clone();
			oo.extra = extra;
			oo.start_len = sl;
			oo.end_len = el;
			let with = crate::gen::build_beh(self.db, self.beh, &oo);
			let cls = format!("{},longer_payloads", shape_class(self.beh));
			if std::env::var("PV_TRACE_C17").is_ok() {
				eprintln!("c17_sizes ver={:?} extra={} start={:?} end={:?} accepted={}", self.built.ver, extra, sl, el, real::read_slp_noopts(&with.bytes).is_ok());
			}
			self.fixed_point_clauses(&with.bytes, None, false, &cls, out);
		}
	}

	/// C17 on metadata holding values of UBJSON types beyond the ones Slippi writes: whatever of it the reader accepts,
	/// the writer must be able to write, and the three clauses hold.
	pub fn c17_metadata_types(&self, o: &crate::gen::GenOpts, out: &mut Vec<Viol>) {
		if self.beh.meta != "some" {
			return;
		}
		let vals: Vec<(&str, Vec<u8>)> = vec![
			("T", vec![b'T']), ("F", vec![b'F']), ("Z", vec![b'Z']), ("i", vec![b'i', 0xFF]), ("U", vec![b'U', 200]),
			("I", vec![b'I', 0x80, 0x00]), ("L", vec![b'L', 0xFF, 0, 0, 0, 0, 0, 0, 1]), ("d", vec![b'd', 0x3F, 0x80, 0, 0]),
			("D", vec![b'D', 0x3F, 0xF0, 0, 0, 0, 0, 0, 0]), ("C", vec![b'C', b'x']), ("H", vec![b'H', b'U', 2, b'1', b'2']),
			("[]", vec![b'[', b']']), ("[l]", vec![b'[', b'l', 0, 0, 0, 1, b']']),
		];
		for (name, val) in vals {
			let mut body: Vec<u8> = vec![b'U', 1, b'k'];
			body.extend_from_slice(&val);
			body.extend_from_slice(&crate::gen::default_meta_body());
			let mut oo = o.clone();
			oo.meta_body = Some(body);
			let with = crate::gen::build_beh(self.db, self.beh, &oo);
			let cls = format!("{},metadata_value:{}", shape_class(self.beh), name);
			self.fixed_point_clauses(&with.bytes, None, false, &cls, out);
		}
	}

	/// C17 on the same files: accepted, written, measured, re-read, written again; the emission is the file without
	/// the unknown events (the behaviours of the recorder model are canonical).
	pub fn c17_insertions(&self, o: &crate::gen::GenOpts, out: &mut Vec<Viol>) {
		for (name, with) in self.insertion_variants(o) {
			let cls = format!("{},insert:{}", shape_class(self.beh), name.split('@').next().unwrap_or(""));
			self.fixed_point_clauses(&with.bytes, if self.beh.junk == 0 { Some(&self.built.bytes) } else { None }, true, &cls, out);
		}
	}

	/// C08 (first half): unknown events declared in the payload table, inserted at every event
	/// boundary after Game Start, leave the parsed game identical.
	pub fn c08_insertions(&self, o: &crate::gen::GenOpts, out: &mut Vec<Viol>) {
		let cls = shape_class(self.beh);
		let base = match real::read_slp_noopts(&self.built.bytes) {
			Outcome::Ok(g) => g,
			_ => return, // C01's business
		};
		let base_cols = cols::from_immutable(&base.frames);
		let base_skip = real::read_slp(&self.built.bytes, true, false);
		for (name, with) in self.insertion_variants(o) {
			let end_is_last = !name.ends_with(",end_not_last");
			let g = match real::read_slp_noopts(&with.bytes) {
				Outcome::Ok(g) => g,
				o2 => {
					out.push(viol("unknown_insert_read", &cls, o2.kind(), format!("{}: {}", name, o2.detail())));
					continue;
				}
			};
			// the skip-frames read, whose contract (C10) is limited to files with Game End as the last event: whatever it
			// returns for the file without the unknown events
			if self.beh.file_end != "none" && end_is_last {
				match (&base_skip, real::read_slp(&with.bytes, true, false)) {
					(Outcome::Ok(b), Outcome::Ok(w)) => {
						if b.start.bytes != w.start.bytes || b.end != w.end || b.metadata != w.metadata || b.gecko_codes != w.gecko_codes || b.frames.id.len() != w.frames.id.len() {
							out.push(viol("unknown_insert_skip", &cls, "mismatch", format!("{}: the skip-frames read differs (start / end / metadata / gecko codes / frame count)", name)));
						}
					}
					(Outcome::Ok(_), o2) => out.push(viol("unknown_insert_skip", &cls, o2.kind(), format!("{}: {}", name, o2.detail()))),
					_ => {}
				}
			}
			// read with the debug option (dumps every event, the unknown ones included): the same game
			if crate::util::fnv(&with.bytes) % 4 == 0 && with.bytes.len() < 1 << 20 {
				let dir = std::env::temp_dir().join(format!("pv-debug-u-{}-{:x}", std::process::id(), crate::util::fnv(&with.bytes)));
				let opts = slippi::de::Opts { skip_frames: false, compute_hash: false, debug: Some(slippi::de::Debug { dir: dir.clone() }), ..Default::default() };
				let res = guard(|| slippi::read(std::io::Cursor::new(&with.bytes[..]), Some(&opts)));
				let _ = std::fs::remove_dir_all(&dir);
				match res {
					Outcome::Ok(gd) => {
						if same_cols(&base_cols, &cols::from_immutable(&gd.frames), true).is_some() || gd.gecko_codes != base.gecko_codes || gd.end != base.end || gd.metadata != base.metadata {
							out.push(viol("unknown_insert_debug_opt", &cls, "mismatch", format!("{}: read with the debug option: the game differs", name)));
						}
					}
					o2 => out.push(viol("unknown_insert_debug_opt", &cls, o2.kind(), format!("{}: {}", name, o2.detail()))),
				}
			}
			// the same bytes arriving in pieces (the unknown payload is then skipped across several reads)
			{
				let frag = if with.bytes.len() % 2 == 0 { crate::stream::Frag::RandomIntr(with.bytes.len() as u64) } else { crate::stream::Frag::Fixed(1 + with.bytes.len() % 6) };
				let r = crate::stream::FragReader::new(&with.bytes, frag);
				match crate::util::guard(|| peppi::io::slippi::read(r, None)) {
					Outcome::Ok(gf) => {
						if let Some(d) = same_cols(&base_cols, &cols::from_immutable(&gf.frames), true) {
							out.push(viol("unknown_insert_frag", &cls, "mismatch", format!("{}: {}", name, d)));
						} else if gf.gecko_codes != base.gecko_codes || gf.end != base.end || gf.metadata != base.metadata {
							out.push(viol("unknown_insert_frag", &cls, "mismatch", format!("{}: gecko/end/metadata differ", name)));
						}
					}
					o2 => out.push(viol("unknown_insert_frag_read", &cls, o2.kind(), format!("{}: {}", name, o2.detail()))),
				}
			}
			let mut diff = same_cols(&base_cols, &cols::from_immutable(&g.frames), true);
			if diff.is_none() && (g.start.bytes != base.start.bytes || format!("{:?}", g.start) != format!("{:?}", base.start)) {
				diff = Some("start differs".into());
			}
			if diff.is_none() && g.end != base.end {
				diff = Some("end differs".into());
			}
			if diff.is_none() && g.metadata != base.metadata {
				diff = Some("metadata differs".into());
			}
			if diff.is_none() && g.gecko_codes != base.gecko_codes {
				diff = Some("gecko codes differ".into());
			}
			if diff.is_none() && g.quirks.map(|q| q.double_game_end) != base.quirks.map(|q| q.double_game_end) {
				diff = Some("quirks differ".into());
			}
			if let Some(d) = diff {
				out.push(viol("unknown_insert", &cls, "mismatch", format!("{}: {}", name, d)));
			}
		}
	}

	/// Frame events that arrive wrapped in Message Splitter blocks (the generic mechanism the Gecko list uses; legal
	/// for any event from 3.3 on, though Slippi only splits the Gecko list): the reader reassembles and dispatches
	/// them, the game is the game of the file in which they are not wrapped.  One event, two in a row (the
	/// accumulator starts empty each time), a whole frame, the last frame event.
	pub fn c04_wrapped(&self, out: &mut Vec<Viol>) {
		let l = self.db.for_version(self.built.ver[0], self.built.ver[1]);
		if !l.gecko || self.beh.junk != 0 {
			return;
		}
		let cls = shape_class(self.beh);
		let base = match real::read_slp_noopts(&self.built.bytes) {
			Outcome::Ok(g) => g,
			_ => return,
		};
		let base_cols = cols::from_immutable(&base.frames);
		let evs = crate::gen::file_events(self.beh);
		let frame_ev: Vec<usize> = evs.iter().enumerate().filter(|(i, e)| ["fs", "pre", "post", "item", "fe"].contains(&e.k.as_str()) && *i < self.built.ev_bufs.len()).map(|(i, _)| i).collect();
		if frame_ev.is_empty() {
			return;
		}
		let mut sets: Vec<(String, Vec<usize>)> = vec![];
		for k in frame_ev.iter().take(5) {
			sets.push((format!("one#{}", k), vec![*k]));
		}
		sets.push(("last".into(), vec![*frame_ev.last().unwrap()]));
		if frame_ev.len() >= 2 {
			sets.push(("two_in_a_row".into(), vec![frame_ev[0], frame_ev[1]]));
		}
		let first_id = evs[frame_ev[0]].id;
		sets.push(("whole_frame".into(), frame_ev.iter().cloned().take_while(|k| evs[*k].id == first_id).collect()));
		let b = &self.built;
		for (name, ks) in sets {
			// rebuild the raw element: payload table (with a Message Splitter entry), Game Start, the events
			let tbl_start = b.raw_start;
			let gs_cmd = b.events_start - 1 - b.start_block.len();
			let mut table = b.bytes[tbl_start..gs_cmd].to_vec();
			if !b.bytes[tbl_start + 2..gs_cmd].chunks(3).any(|c| c[0] == 0x10) {
				table.extend_from_slice(&[0x10, 0x02, 0x04]);
				table[1] += 3;
			}
			let mut raw = table;
			raw.extend_from_slice(&b.bytes[gs_cmd..b.events_start]);
			for (i, ev) in b.ev_bufs.iter().enumerate() {
				if ks.contains(&i) {
					let payload = &ev[1..];
					let n = (payload.len() + 511) / 512;
					for j in 0..n.max(1) {
						let chunk = &payload[(j * 512).min(payload.len())..((j + 1) * 512).min(payload.len())];
						let mut blk = vec![0x10u8];
						blk.extend_from_slice(chunk);
						blk.resize(513, 0xEE);
						blk.extend_from_slice(&(chunk.len() as u16).to_be_bytes());
						blk.push(ev[0]);
						blk.push((j + 1 == n.max(1)) as u8);
						raw.extend_from_slice(&blk);
					}
				} else {
					raw.extend_from_slice(ev);
				}
			}
			let mut bytes = b.bytes[..b.raw_start].to_vec();
			bytes[11..15].copy_from_slice(&(raw.len() as u32).to_be_bytes());
			bytes.extend_from_slice(&raw);
			bytes.extend_from_slice(&b.bytes[b.raw_end..]);
			match real::read_slp_noopts(&bytes) {
				Outcome::Ok(g) => {
					let mut diff = same_cols(&base_cols, &cols::from_immutable(&g.frames), true);
					if diff.is_none() && (g.gecko_codes != base.gecko_codes || g.end != base.end || g.metadata != base.metadata) {
						diff = Some("gecko codes / end / metadata differ".into());
					}
					if let Some(d) = diff {
						out.push(viol("wrapped_events", &cls, "mismatch", format!("{}: frame events wrapped in Message Splitter blocks: {}", name, d)));
					}
				}
				o => out.push(viol("wrapped_events", &cls, o.kind(), format!("{}: {}", name, o.detail()))),
			}
		}
	}

	/// C08 (second half): a replay of a newer version whose known events carry extra trailing bytes
	/// parses, and every known field has the value it would have without the extra bytes.
	pub fn c08_newer(&self, out: &mut Vec<Viol>) {
		let cls = format!("{},version:{}.{}", shape_class(self.beh), self.built.ver[0], self.built.ver[1]);
		let g = match real::read_slp_noopts(&self.built.bytes) {
			Outcome::Ok(g) => g,
			o => {
				out.push(viol("newer_version_read", &cls, o.kind(), o.detail()));
				return;
			}
		};
		let c = cols::from_immutable(&g.frames);
		if let Some(m) = compare(&self.exp, &c, &CmpOpts { presence: true, rows: None, missing_ok_if_empty: false }) {
			out.push(viol("newer_version_fields", &cls, "mismatch", m));
		}
		// (the duplicated-Game-End quirk is recognised by the nominal block length of the version and is
		// not an event field: it is not compared for versions whose blocks are longer than nominal)
		self.check_game_level("newer_version_fields", &g, false, out);
		// the known fields of the (longer) Game Start and Game End blocks, against the TLA+ field maps
		let ng = self.db.blocks.start_groups.len();
		match crate::blocks::expected_start_json(self.db, &self.built.start_block, ng) {
			Ok(want) => {
				let got = crate::blocks::render(&g.start);
				if got != want {
					out.push(viol("newer_version_fields", &cls, "mismatch", crate::blocks::diff_json(&got, &want, "start")));
				}
			}
			Err(e) => out.push(viol("newer_version_fields", &cls, "mismatch", format!("harness built an invalid start block: {}", e))),
		}
		// ... and with the skip-frames option (finished files only): same start, end, metadata
		if self.beh.fin.gend != 0 {
			match real::read_slp(&self.built.bytes, true, false) {
				Outcome::Ok(sk) => {
					if sk.start.bytes != g.start.bytes || sk.end != g.end || sk.metadata != g.metadata {
						out.push(viol("newer_version_skip", &cls, "mismatch", "skip-frames read of a newer-version file differs from the full read".into()));
					}
				}
				o => out.push(viol("newer_version_skip", &cls, o.kind(), o.detail())),
			}
		}
		if let Some(e) = &g.end {
			if let Ok(want) = crate::blocks::expected_end_json(self.db, &self.built.end_block, self.db.blocks.end_groups.len()) {
				let got = crate::blocks::render(e);
				if got != want {
					out.push(viol("newer_version_fields", &cls, "mismatch", crate::blocks::diff_json(&got, &want, "end")));
				}
			}
		}
	}

	/// The reader's debug option (spec growth beyond the listed properties): the dump directory holds
	/// exactly the files the model predicts, with the events' payload bytes.
	pub fn debug_dump(&self, dir: &std::path::Path, out: &mut Vec<Viol>) {
		use std::collections::BTreeMap;
		let cls = shape_class(self.beh);
		let _ = std::fs::remove_dir_all(dir);
		let opts = slippi::de::Opts { skip_frames: false, compute_hash: false, debug: Some(slippi::de::Debug { dir: dir.to_path_buf() }), ..Default::default() };
		let res = guard(|| slippi::read(std::io::Cursor::new(&self.built.bytes[..]), Some(&opts)));
		if !res.is_ok() {
			out.push(outcome_viol("debug_read", &cls, &res));
			return;
		}
		let l = self.db.for_version(self.built.ver[0], self.built.ver[1]);
		let code_of = |k: &str| -> u8 {
			match k {
				"pre" => l.pre.code,
				"post" => l.post.code,
				"fs" => l.start.code,
				"fe" => l.end.code,
				"item" => l.item.code,
				"ge" => 0x39,
				"split" => 0x10,
				"gecko" => 0x3D,
				_ => 0,
			}
		};
		let mut want: BTreeMap<(u8, usize), Vec<u8>> = BTreeMap::new();
		// the Payloads event (table bytes) and Game Start are dumped too
		let table_end = self.built.events_start - 1 - self.built.start_block.len();
		want.insert((0x35, 0), self.built.bytes[self.built.raw_start + 2..table_end].to_vec());
		want.insert((0x36, 0), self.built.start_block.clone());
		for d in &self.beh.dump {
			let data: Vec<u8> = if d.code == "gecko" {
				d.toks.iter().flat_map(|t| self.built.ev_bufs[*t - 1][1..513].to_vec()).collect()
			} else {
				self.built.ev_bufs[d.toks[0] - 1][1..].to_vec()
			};
			want.insert((code_of(&d.code), d.n), data);
		}
		let mut got: BTreeMap<(u8, usize), Vec<u8>> = BTreeMap::new();
		if let Ok(rd) = std::fs::read_dir(dir) {
			for e in rd.flatten() {
				let code: u8 = match e.file_name().to_string_lossy().parse() {
					Ok(c) => c,
					Err(_) => {
						out.push(viol("debug_dump", &cls, "mismatch", format!("unexpected entry {:?}", e.file_name())));
						continue;
					}
				};
				if let Ok(rd2) = std::fs::read_dir(e.path()) {
					for f in rd2.flatten() {
						match f.file_name().to_string_lossy().parse::<usize>() {
							Ok(n) => {
								got.insert((code, n), std::fs::read(f.path()).unwrap_or_default());
							}
							Err(_) => out.push(viol("debug_dump", &cls, "mismatch", format!("unexpected file {:?}", f.path()))),
						}
					}
				}
			}
		}
		let _ = std::fs::remove_dir_all(dir);
		for (k, v) in &want {
			match got.get(k) {
				None => out.push(viol("debug_dump", &cls, "mismatch", format!("dump file {}/{} missing", k.0, k.1))),
				Some(g) if g != v => out.push(viol("debug_dump", &cls, "mismatch", format!("dump file {}/{} holds other bytes than the event's payload", k.0, k.1))),
				_ => {}
			}
		}
		for k in got.keys() {
			if !want.contains_key(k) {
				out.push(viol("debug_dump", &cls, "mismatch", format!("unexpected dump file {}/{}", k.0, k.1)));
			}
		}
	}

	/// C02: .slp -> .slpp -> .slp under each compression; hash and quirks carried.
	pub fn slpp_roundtrip(&self, comps: &[Comp], with_hash: bool, out: &mut Vec<Viol>) {
		let cls = shape_class(self.beh);
		for comp in comps {
			let g = match real::read_slp(&self.built.bytes, false, with_hash) {
				Outcome::Ok(g) => g,
				o => {
					out.push(outcome_viol("slp_read", &cls, &o));
					return;
				}
			};
			let hash = g.hash.clone();
			let quirk = g.quirks.map_or(false, |q| q.double_game_end);
			if with_hash != hash.is_some() {
				out.push(viol("slp_hash", &cls, "mismatch", format!("hash requested={} reported={:?}", with_hash, hash)));
			}
			// the hash does not depend on the other options: the same read with the debug option set
			if with_hash && *comp == comps[0] && self.built.bytes.len() < 1 << 20 && crate::util::fnv(&self.built.bytes) % 3 == 0 {
				let dir = std::env::temp_dir().join(format!("pv-debug-h-{}-{:x}", std::process::id(), crate::util::fnv(&self.built.bytes)));
				let opts = slippi::de::Opts { skip_frames: false, compute_hash: true, debug: Some(slippi::de::Debug { dir: dir.clone() }), ..Default::default() };
				let res = guard(|| slippi::read(std::io::Cursor::new(&self.built.bytes[..]), Some(&opts)));
				let _ = std::fs::remove_dir_all(&dir);
				match res {
					Outcome::Ok(gd) => {
						if gd.hash != hash {
							out.push(viol("slp_hash", &cls, "mismatch", format!("hash with the debug option set: {:?}, without: {:?}", gd.hash, hash)));
						}
					}
					o => out.push(outcome_viol("slp_hash", &cls, &o)),
				}
			}
			let cc = format!("{},comp:{}", cls, comp.name());
			// the hash is a string the archive stores verbatim: one in another spelling, or not an XXH3 digest at all,
			// comes back unchanged as well
			if with_hash && crate::util::fnv(&self.built.bytes) % 3 == 1 {
				for foreign in ["xxh3:580FEC7A32EC691A", "xxh3:fec7a32ec691a", "sha1:da39a3ee5e6b4b0d3255bfef95601890afd80709", "", "xxh3:+80fec7a32ec691a"] {
					if let Outcome::Ok(mut gf) = real::read_slp(&self.built.bytes, false, false) {
						gf.hash = Some(foreign.to_string());
						match real::write_slpp(gf, *comp) {
							Outcome::Ok(a) => match real::read_slpp(&a, false) {
								Outcome::Ok(g3) => {
									if g3.hash.as_deref() != Some(foreign) {
										out.push(viol("slpp_hash", &cc, "mismatch", format!("stored hash {:?} came back as {:?}", foreign, g3.hash)));
									}
								}
								o => out.push(outcome_viol("slpp_read", &cc, &o)),
							},
							o => out.push(outcome_viol("slpp_write", &cc, &o)),
						}
					}
				}
			}
			// history: an earlier .slpp write on this thread failed part-way (sink full)
			// (of another game of the same shape, at a point anywhere in the archive or within its last 2 kB)
			let other = crate::gen::build_beh(self.db, self.beh, &crate::gen::GenOpts::new(crate::util::fnv(&self.built.bytes), self.built.ver));
			if let (Outcome::Ok(gx), Outcome::Ok(gy)) = (real::read_slp(&other.bytes, false, with_hash), real::read_slp(&other.bytes, false, with_hash)) {
				if let Outcome::Ok(full) = real::write_slpp(gy, *comp) {
					let h = crate::util::fnv(&other.bytes);
					let limit = if h % 3 == 0 { (h / 3) as usize % full.len() } else { full.len() - 1 - (h / 3) as usize % full.len().min(2048) };
					real::fail_write_slpp(gx, *comp, limit);
				}
			}
			let arch = match real::write_slpp(g, *comp) {
				Outcome::Ok(a) => a,
				o => {
					out.push(outcome_viol("slpp_write", &cls, &o));
					continue;
				}
			};
			// the archive does not depend on how many bytes the sink takes per call
			if let Outcome::Ok(gs) = real::read_slp(&self.built.bytes, false, with_hash) {
				match real::write_slpp_short(gs, *comp, 1 + arch.len() % 517) {
					Outcome::Ok(a2) => {
						if a2 != arch {
							out.push(viol("slpp_write_short_sink", &cc, "mismatch", format!("archive written through a sink that accepts {} bytes per call differs (first at {:?})", 1 + arch.len() % 517, first_diff(&a2, &arch))));
						}
					}
					o => out.push(outcome_viol("slpp_write_short_sink", &cc, &o)),
				}
			}
			let g2 = match real::read_slpp(&arch, false) {
				Outcome::Ok(g) => g,
				o => {
					out.push(outcome_viol("slpp_read", &cls, &o));
					continue;
				}
			};
			if g2.hash != hash {
				out.push(viol("slpp_hash", &cc, "mismatch", format!("{:?} vs {:?}", g2.hash, hash)));
			}
			// the member of peppi.json that carries it (archives are exchanged between builds and implementations)
			if let Ok(es) = crate::tarx::walk(&arch) {
				if let Some(pj) = es.iter().find(|e| e.name == "peppi.json").and_then(|e| serde_json::from_slice::<serde_json::Value>(&e.data).ok()) {
					let stored = pj.get("slp_hash").and_then(|v| v.as_str()).map(|s| s.to_string());
					if stored != hash {
						out.push(viol("slpp_hash", &cc, "mismatch", format!("peppi.json slp_hash = {:?}, the replay's hash is {:?}", stored, hash)));
					}
				}
			}
			if g2.quirks.map_or(false, |q| q.double_game_end) != quirk {
				out.push(viol("slpp_quirks", &cc, "mismatch", "double_game_end lost".into()));
			}
			match real::write_slp(&g2) {
				Outcome::Ok(w) => {
					if let Some(i) = first_diff(&w, &self.built.bytes) {
						out.push(viol("slpp_roundtrip", &cc, "mismatch", format!("differs at byte {}", i)));
					}
				}
				o => out.push(outcome_viol("slpp_reserialise", &cc, &o)),
			}
			// the same archive arriving in short reads (pipe, socket, streaming decompressor)
			for frag in [crate::stream::Frag::Fixed(1 + arch.len() % 5), crate::stream::Frag::Random(arch.len() as u64)] {
				match real::read_slpp_frag(&arch, false, frag.clone()) {
					Outcome::Ok(g3) => match real::write_slp(&g3) {
						Outcome::Ok(w) => {
							if w != self.built.bytes || g3.hash != hash {
								out.push(viol("slpp_roundtrip_fragmented", &cc, "mismatch", format!("the game read from the archive depends on how the stream fragments reads ({:?})", frag)));
							}
						}
						o => out.push(outcome_viol("slpp_roundtrip_fragmented", &cc, &o)),
					},
					o => out.push(viol("slpp_roundtrip_fragmented", &cc, o.kind(), format!("{:?}: {}", frag, o.detail()))),
				}
			}
		}
	}
}

/// Schema tree derived from the TLA+ field tables: id; ports.P<n>.leader/follower.pre/post;
/// start (>= 2.2); end, item list (>= 3.0).  Nesting follows the dotted field paths.
pub fn expected_schema(db: &LayoutDb, ver: [u8; 3], occ: &[String]) -> cols::SchemaNode {
	use cols::SchemaNode;
	let l = db.for_version(ver[0], ver[1]);
	fn insert(node: &mut SchemaNode, path: &[&str], ty: &str) {
		if path.len() == 1 {
			node.children.push(SchemaNode {
				name: path[0].to_string(),
				ty: ty.to_string(),
				children: vec![],
			});
		} else {
			if node.children.last().map_or(true, |c| c.name != path[0] || c.ty != "struct") {
				node.children.push(SchemaNode {
					name: path[0].to_string(),
					ty: "struct".into(),
					children: vec![],
				});
			}
			insert(node.children.last_mut().unwrap(), &path[1..], ty);
		}
	}
	let strukt = |name: &str, st: &crate::layout::StructL| {
		let mut n = SchemaNode {
			name: name.to_string(),
			ty: "struct".into(),
			children: vec![],
		};
		for f in &st.fields {
			let parts: Vec<&str> = f.n.split('.').collect();
			insert(&mut n, &parts, &f.t);
		}
		n
	};
	let data = |name: &str| SchemaNode {
		name: name.to_string(),
		ty: "struct".into(),
		children: vec![strukt("pre", &l.pre), strukt("post", &l.post)],
	};
	let mut ports = SchemaNode {
		name: "ports".into(),
		ty: "struct".into(),
		children: vec![],
	};
	for (p, o) in occ.iter().enumerate() {
		if o == "none" {
			continue;
		}
		let mut pn = SchemaNode {
			name: db.blocks.ports[p].clone(),
			ty: "struct".into(),
			children: vec![data("leader")],
		};
		if o == "ic" {
			pn.children.push(data("follower"));
		}
		ports.children.push(pn);
	}
	// Arrow cannot represent a struct without fields: such a struct (no occupied port; frame end
	// before it had any field) is not materialised in the schema.
	let mut root = SchemaNode {
		name: "frame".into(),
		ty: "struct".into(),
		children: vec![SchemaNode {
			name: "id".into(),
			ty: "i32".into(),
			children: vec![],
		}],
	};
	if !ports.children.is_empty() {
		root.children.push(ports);
	}
	if l.start.exists {
		root.children.push(strukt("start", &l.start));
	}
	if l.end.exists && !l.end.fields.is_empty() {
		root.children.push(strukt("end", &l.end));
	}
	if l.item.exists {
		root.children.push(SchemaNode {
			name: "item".into(),
			ty: "list".into(),
			children: vec![strukt("item", &l.item)],
		});
	}
	root
}

pub fn replay_record(beh: &Beh, built: &Built, seed: u64, plan: u8) -> serde_json::Value {
	json!({
		"beh": {
			"reg": beh.reg, "occ": beh.occ, "file_end": beh.file_end, "meta": beh.meta,
			"hist": beh.hist.iter().map(|e| json!({"k": e.k, "id": e.id, "p": e.p, "f": e.f, "x": e.x, "tok": e.tok})).collect::<Vec<_>>(),
		},
		"ver": built.ver, "seed": seed, "plan": plan,
		"bytes_hex": crate::util::hex(&built.bytes),
	})
}

/// Row views re-assembled into columns against the real columns, for the first `n` rows:
/// every column the representation has must be reported by the row view with the same values
/// (a version-absent field is a column the representation does not have, and the row view must
/// report it as absent); items are the slice delimited by the row's offsets.
pub fn rows_vs_cols(rc: &cols::Cols, c: &cols::Cols, n: usize) -> Option<String> {
	let nitems = c.item_off.as_ref().map(|o| o.get(n).copied().unwrap_or(0) as usize).unwrap_or(0);
	for (k, col) in &c.leaves {
		let lim = if k.starts_with("item.") { nitems } else { n };
		if lim == 0 {
			continue;
		}
		match rc.leaves.get(k) {
			None => return Some(format!("row view lacks {}", k)),
			Some(r) => {
				if r.ty != col.ty {
					return Some(format!("row view {}: type {} vs {}", k, r.ty, col.ty));
				}
				if r.vals.len() < lim || col.vals.len() < lim {
					return Some(format!("row view {}: {} values, columns {} (need {})", k, r.vals.len(), col.vals.len(), lim));
				}
				for i in 0..lim {
					if r.vals[i] != col.vals[i] {
						return Some(format!("row view {} index {}: {:#x}, column holds {:#x}", k, i, r.vals[i], col.vals[i]));
					}
				}
				if r.vals.len() != lim {
					return Some(format!("row view {}: {} values for {} rows/items", k, r.vals.len(), lim));
				}
			}
		}
	}
	for k in rc.leaves.keys() {
		if !c.leaves.contains_key(k) {
			return Some(format!("row view reports {} which the columns do not have", k));
		}
	}
	match (&rc.item_off, &c.item_off) {
		(Some(r), Some(o)) => {
			if o.len() < n + 1 || r[..] != o[..n + 1] {
				return Some(format!("row view item grouping {:?} vs offsets {:?}", r, &o[..(n + 1).min(o.len())]));
			}
		}
		(None, Some(_)) if n == 0 => {}
		(None, None) => {}
		(r, o) => return Some(format!("row view items {:?} vs offsets {:?}", r.is_some(), o.is_some())),
	}
	None
}

/// Independent walk of a .slp: returns (declared raw length, measured length of the raw element:
/// Payloads event + every event the payload table lets us step over until the `U`/`}` that follows).
pub fn walk_raw(b: &[u8]) -> Result<(usize, usize), String> {
	if b.len() < 17 || b[..11] != crate::gen::FILE_SIGNATURE {
		return Err("bad signature".into());
	}
	let declared = u32::from_be_bytes([b[11], b[12], b[13], b[14]]) as usize;
	let mut sizes = [None::<usize>; 256];
	let mut p = 15;
	if b[p] != 0x35 {
		return Err("no payloads event".into());
	}
	let tl = b[p + 1] as usize;
	let n = (tl - 1) / 3;
	for i in 0..n {
		let o = p + 2 + 3 * i;
		sizes[b[o] as usize] = Some(u16::from_be_bytes([b[o + 1], b[o + 2]]) as usize);
	}
	p += 1 + tl;
	// the element after the raw array is `U\x08metadata{` or the closing brace
	loop {
		if p >= b.len() {
			return Err("ran off the end".into());
		}
		let at_tail = (b[p] == 0x55 && b[p..].starts_with(&crate::gen::META_KEY)) || (b[p] == 0x7d && p + 1 == b.len());
		if at_tail && sizes[b[p] as usize].is_none() {
			break;
		}
		match sizes[b[p] as usize] {
			Some(s) => p += 1 + s,
			None => return Err(format!("undeclared event {:#x} at {}", b[p], p)),
		}
	}
	Ok((declared, p - 15))
}
