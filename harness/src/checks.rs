//! Conformance checks of one concretised behaviour against the real code.

use std::io::Cursor;

use peppi::game::{port_occupancy, Game as GameTrait};
use peppi::io::slippi;
use serde_json::json;

use crate::cols;
use crate::expect::{compare, expected, same_cols, CmpOpts, ECols};
use crate::gen::{Beh, Built};
use crate::layout::LayoutDb;
use crate::real::{self, Comp};
use crate::util::{first_diff, guard, guard_plain, Outcome};

#[derive(Debug, Clone, serde::Serialize)]
pub struct Viol {
	/// which check found it
	pub check: String,
	/// model-derived class of the failure (used for known-findings signatures)
	pub class: String,
	/// "panic" | "err" | "mismatch" | "hang" | "abort"
	pub kind: String,
	pub detail: String,
}

pub fn viol(check: &str, class: &str, kind: &str, detail: String) -> Viol {
	Viol {
		check: check.into(),
		class: class.into(),
		kind: kind.into(),
		detail,
	}
}

fn outcome_viol<T>(check: &str, class: &str, o: &Outcome<T>) -> Viol {
	viol(check, class, o.kind(), o.detail())
}

/// Class of a behaviour for signatures: regime, and the shape features the model distinguishes.
pub fn shape_class(beh: &Beh) -> String {
	let nframes = beh.fin.ids.len();
	let absent = beh.fin.pre.iter().any(|c| c.toks.iter().any(|t| *t == 0));
	let mut s = format!("regime:{}", beh.reg);
	if nframes == 0 {
		s.push_str(",frames=0");
	}
	if beh.occ.iter().all(|o| o == "none") {
		s.push_str(",ports=0");
	}
	if absent {
		s.push_str(",absent-char");
	}
	if beh.file_end != "single" {
		s.push_str(&format!(",end={}", beh.file_end));
	}
	if beh.meta == "none" {
		s.push_str(",meta=none");
	}
	s
}

pub struct Ctx<'a> {
	pub db: &'a LayoutDb,
	pub beh: &'a Beh,
	pub built: &'a Built,
	pub exp: ECols,
}

impl<'a> Ctx<'a> {
	pub fn new(db: &'a LayoutDb, beh: &'a Beh, built: &'a Built) -> Self {
		let exp = expected(db, &beh.occ, &beh.fin, built);
		Ctx { db, beh, built, exp }
	}

	fn expected_gecko(&self) -> Option<(Vec<u8>, u32)> {
		if self.beh.fin.gecko.is_empty() {
			None
		} else {
			let mut b = vec![];
			for t in &self.beh.fin.gecko {
				b.extend_from_slice(&self.built.ev_bufs[*t - 1][1..513]);
			}
			Some((b, self.beh.fin.gactual))
		}
	}

	/// Game-level observables (start, end, gecko, metadata presence, quirks) against the model.
	pub fn check_game_level(&self, check: &str, g: &peppi::game::immutable::Game, out: &mut Vec<Viol>) {
		let cls = shape_class(self.beh);
		if g.start.bytes.0 != self.built.start_block {
			out.push(viol(check, &cls, "mismatch", "start block not retained verbatim".into()));
		}
		let v = g.start.slippi.version;
		if [v.0, v.1, v.2] != self.built.ver {
			out.push(viol(check, &cls, "mismatch", format!("version {:?}", v)));
		}
		match (&g.end, self.beh.fin.gend != 0) {
			(Some(e), true) => {
				if e.bytes.0 != self.built.end_block {
					out.push(viol(check, &cls, "mismatch", "end block not retained verbatim".into()));
				}
			}
			(None, false) => {}
			(e, m) => out.push(viol(
				check,
				&cls,
				"mismatch",
				format!("game end present={} model={}", e.is_some(), m),
			)),
		}
		match (&g.gecko_codes, self.expected_gecko()) {
			(None, None) => {}
			(Some(a), Some((b, n))) => {
				if a.bytes != b || a.actual_size != n {
					out.push(viol(check, &cls, "mismatch", "gecko codes differ".into()));
				}
			}
			(a, b) => out.push(viol(
				check,
				&cls,
				"mismatch",
				format!("gecko present={} model={}", a.is_some(), b.is_some()),
			)),
		}
		if g.metadata.is_some() != (self.beh.meta == "some") {
			out.push(viol(
				check,
				&cls,
				"mismatch",
				format!("metadata present={} model={}", g.metadata.is_some(), self.beh.meta),
			));
		}
		let q = g.quirks.map_or(false, |q| q.double_game_end);
		if q != self.beh.fin.quirk {
			out.push(viol(check, &cls, "mismatch", format!("double_game_end quirk={} model={}", q, self.beh.fin.quirk)));
		}
	}

	/// C01 (+C04 on the finished game): read, project, compare with the model, write back.
	pub fn c01_roundtrip(&self, out: &mut Vec<Viol>) {
		let cls = shape_class(self.beh);
		let g = match real::read_slp_noopts(&self.built.bytes) {
			Outcome::Ok(g) => g,
			o => {
				out.push(outcome_viol("slp_read", &cls, &o));
				return;
			}
		};
		self.check_game_level("slp_read", &g, out);
		let c = cols::from_immutable(&g.frames);
		if let Some(m) = compare(&self.exp, &c, &CmpOpts { presence: true, rows: None, missing_ok_if_empty: false }) {
			out.push(viol("slp_read_columns", &cls, "mismatch", m));
		}
		match real::write_slp(&g) {
			Outcome::Ok(w) => {
				if let Some(i) = first_diff(&w, &self.built.bytes) {
					out.push(viol(
						"slp_roundtrip",
						&cls,
						"mismatch",
						format!(
							"written file differs at byte {} (len {} vs {}); raw_len declared {} vs {}",
							i,
							w.len(),
							self.built.bytes.len(),
							if w.len() >= 15 { u32::from_be_bytes([w[11], w[12], w[13], w[14]]) } else { 0 },
							self.built.raw_len
						),
					));
				}
			}
			o => out.push(outcome_viol("slp_write", &cls, &o)),
		}
	}

	/// C04 / C12 / C13 (in-progress): drive the incremental API event by event.
	pub fn incremental(&self, rows_too: bool, out: &mut Vec<Viol>) {
		let cls = shape_class(self.beh);
		let b = &self.built.bytes;
		let mut r = Cursor::new(&b[..]);
		let hdr = guard(|| slippi::de::parse_header(&mut r, None));
		let raw_len = match hdr {
			Outcome::Ok(n) => n,
			o => {
				out.push(outcome_viol("inc_header", &cls, &o));
				return;
			}
		};
		if raw_len != self.built.raw_len {
			out.push(viol("inc_header", &cls, "mismatch", format!("raw_len {}", raw_len)));
		}
		let mut st = match guard(|| slippi::de::parse_start(&mut r, None)) {
			Outcome::Ok(s) => s,
			o => {
				out.push(outcome_viol("inc_start", &cls, &o));
				return;
			}
		};
		let consumed = |pos: u64| pos as usize - self.built.raw_start;
		if st.bytes_read() != consumed(r.position()) {
			out.push(viol("inc_bytes_read", &cls, "mismatch", format!("after start: {} vs {}", st.bytes_read(), consumed(r.position()))));
		}
		let mut last_rows = 0usize;
		for (k, e) in self.beh.hist.iter().enumerate() {
			let code = match guard(|| slippi::de::parse_event(&mut r, &mut st, None)) {
				Outcome::Ok(c) => c,
				o => {
					out.push(viol("inc_event", &cls, o.kind(), format!("event {} ({}): {}", k + 1, e.k, o.detail())));
					return;
				}
			};
			let want_code = match e.k.as_str() {
				"split" => {
					if e.f == 1 {
						e.p as u8
					} else {
						0x10
					}
				}
				_ => self.built.ev_bufs[k][0],
			};
			if code != want_code {
				out.push(viol("inc_event", &cls, "mismatch", format!("event {} returned code {:#x}, expected {:#x}", k + 1, code, want_code)));
			}
			if st.bytes_read() != consumed(r.position()) {
				out.push(viol("inc_bytes_read", &cls, "mismatch", format!("after event {}: {} vs {}", k + 1, st.bytes_read(), consumed(r.position()))));
				return;
			}
			let (nrows, closed) = (self.beh.steps[k][0], self.beh.steps[k][1]);
			let frames = st.frames();
			if frames.len() != nrows {
				out.push(viol("inc_rows", &cls, "mismatch", format!("after event {}: {} rows, model {}", k + 1, frames.len(), nrows)));
				return;
			}
			if frames.len() < last_rows {
				out.push(viol("inc_rows", &cls, "mismatch", format!("row count decreased at event {}", k + 1)));
			}
			last_rows = frames.len();
			let c = cols::from_mutable(frames);
			if let Some(m) = compare(&self.exp, &c, &CmpOpts { presence: true, rows: Some(closed), missing_ok_if_empty: false }) {
				out.push(viol("inc_columns", &cls, "mismatch", format!("after event {} ({} closed rows): {}", k + 1, closed, m)));
				return;
			}
			if rows_too && closed > 0 {
				let rows = guard_plain(|| (0..closed).map(|i| GameTrait::frame(&st, i)).collect::<Vec<_>>());
				match rows {
					Outcome::Ok(rows) => {
						let rc = cols::from_rows(&rows);
						if let Some(m) = compare(&self.exp, &rc, &CmpOpts { presence: false, rows: Some(closed), missing_ok_if_empty: true }) {
							out.push(viol("inc_rowview", &cls, "mismatch", format!("after event {}: {}", k + 1, m)));
							return;
						}
					}
					o => {
						out.push(viol("inc_rowview", &cls, o.kind(), o.detail()));
						return;
					}
				}
			}
		}
	}

	/// C13 (finished representation): the row view of every row equals the columns.
	pub fn rowview(&self, out: &mut Vec<Viol>) {
		let cls = shape_class(self.beh);
		let g = match real::read_slp_noopts(&self.built.bytes) {
			Outcome::Ok(g) => g,
			o => {
				out.push(outcome_viol("slp_read", &cls, &o));
				return;
			}
		};
		let n = GameTrait::len(&g);
		if n != self.beh.fin.ids.len() {
			out.push(viol("rowview_len", &cls, "mismatch", format!("len {} model {}", n, self.beh.fin.ids.len())));
			return;
		}
		let ver = g.start.slippi.version;
		let rows = guard_plain(|| (0..n).map(|i| GameTrait::frame(&g, i)).collect::<Vec<_>>());
		let rows2 = guard_plain(|| (0..n).map(|i| g.frames.transpose_one(i, ver)).collect::<Vec<_>>());
		match (rows, rows2) {
			(Outcome::Ok(rows), Outcome::Ok(rows2)) => {
				if rows != rows2 {
					// NaN != NaN under PartialEq: compare via bit patterns instead
					if cols::from_rows(&rows) != cols::from_rows(&rows2) {
						out.push(viol("rowview", &cls, "mismatch", "Game::frame differs from Frame::transpose_one".into()));
					}
				}
				let rc = cols::from_rows(&rows);
				if let Some(m) = compare(&self.exp, &rc, &CmpOpts { presence: false, rows: None, missing_ok_if_empty: true }) {
					out.push(viol("rowview", &cls, "mismatch", m));
				}
				// the ports listed in each row are the occupied ports in order
				let want: Vec<String> = self
					.beh
					.occ
					.iter()
					.enumerate()
					.filter(|(_, o)| *o != "none")
					.map(|(p, _)| self.db.blocks.ports[p].clone())
					.collect();
				for (i, fr) in rows.iter().enumerate() {
					let got: Vec<String> = fr.ports.iter().map(|p| format!("{}", p.port)).collect();
					if got != want {
						out.push(viol("rowview", &cls, "mismatch", format!("row {} ports {:?} expected {:?}", i, got, want)));
						break;
					}
					for (p, pd) in fr.ports.iter().enumerate() {
						let pi = self.beh.occ.iter().enumerate().filter(|(_, o)| *o != "none").nth(p).unwrap().0;
						if pd.follower.is_some() != (self.beh.occ[pi] == "ic") {
							out.push(viol("rowview", &cls, "mismatch", format!("row {} port {} follower presence", i, pi)));
						}
					}
					if fr.start.is_some() != self.exp.leaves.contains_key("start.random_seed") {
						out.push(viol("rowview", &cls, "mismatch", format!("row {} start presence", i)));
					}
					if fr.items.is_some() != self.exp.item_off.is_some() || fr.end.is_some() != self.exp.item_off.is_some() {
						out.push(viol("rowview", &cls, "mismatch", format!("row {} end/items presence", i)));
					}
				}
			}
			(a, b) => {
				if !a.is_ok() {
					out.push(viol("rowview", &cls, a.kind(), a.detail()));
				}
				if !b.is_ok() {
					out.push(viol("rowview", &cls, b.kind(), b.detail()));
				}
			}
		}
	}

	/// The schema tree the TLA+ layout prescribes for this version and occupancy.
	pub fn expected_schema(&self) -> cols::SchemaNode {
		expected_schema(self.db, self.built.ver, &self.beh.occ)
	}

	/// C14: Arrow struct array schema, values, validity; import and re-serialise.
	pub fn arrow(&self, out: &mut Vec<Viol>) {
		let cls = shape_class(self.beh);
		let g = match real::read_slp_noopts(&self.built.bytes) {
			Outcome::Ok(g) => g,
			o => {
				out.push(outcome_viol("slp_read", &cls, &o));
				return;
			}
		};
		let mem = cols::from_immutable(&g.frames);
		let ver = g.start.slippi.version;
		let ports = port_occupancy(&g.start);
		let peppi::game::immutable::Game { start, end, frames, metadata, gecko_codes, hash, quirks } = g;
		let arr = match guard_plain(|| frames.into_struct_array(ver, &ports)) {
			Outcome::Ok(a) => a,
			o => {
				out.push(viol("arrow_export", &cls, o.kind(), o.detail()));
				return;
			}
		};
		use arrow2::array::Array;
		let schema = cols::schema_of("frame", arr.data_type());
		let want = self.expected_schema();
		if schema != want {
			out.push(viol(
				"arrow_schema",
				&cls,
				"mismatch",
				format!("schema differs: got {} expected {}", serde_json::to_string(&schema).unwrap(), serde_json::to_string(&want).unwrap()),
			));
		}
		if arr.len() != self.beh.fin.ids.len() {
			out.push(viol("arrow_rows", &cls, "mismatch", format!("{} rows, model {}", arr.len(), self.beh.fin.ids.len())));
		}
		match cols::from_struct_array(&arr) {
			Ok(ac) => {
				if let Some(m) = same_cols(&mem, &ac, true) {
					out.push(viol("arrow_values", &cls, "mismatch", format!("exported vs in-memory: {}", m)));
				}
				if let Some(m) = compare(&self.exp, &ac, &CmpOpts { presence: true, rows: None, missing_ok_if_empty: false }) {
					out.push(viol("arrow_values", &cls, "mismatch", m));
				}
			}
			Err(e) => out.push(viol("arrow_values", &cls, "mismatch", e)),
		}
		let back = match guard_plain(|| peppi::frame::immutable::Frame::from_struct_array(arr, ver)) {
			Outcome::Ok(f) => f,
			o => {
				out.push(viol("arrow_import", &cls, o.kind(), o.detail()));
				return;
			}
		};
		let g2 = peppi::game::immutable::Game { start, end, frames: back, metadata, gecko_codes, hash, quirks };
		match real::write_slp(&g2) {
			Outcome::Ok(w) => {
				if let Some(i) = first_diff(&w, &self.built.bytes) {
					out.push(viol("arrow_reserialise", &cls, "mismatch", format!("differs at byte {}", i)));
				}
			}
			o => out.push(outcome_viol("arrow_reserialise", &cls, &o)),
		}
	}

	/// C02: .slp -> .slpp -> .slp under each compression; hash and quirks carried.
	pub fn slpp_roundtrip(&self, comps: &[Comp], with_hash: bool, out: &mut Vec<Viol>) {
		let cls = shape_class(self.beh);
		for comp in comps {
			let g = match real::read_slp(&self.built.bytes, false, with_hash) {
				Outcome::Ok(g) => g,
				o => {
					out.push(outcome_viol("slp_read", &cls, &o));
					return;
				}
			};
			let hash = g.hash.clone();
			let quirk = g.quirks.map_or(false, |q| q.double_game_end);
			if with_hash != hash.is_some() {
				out.push(viol("slp_hash", &cls, "mismatch", format!("hash requested={} reported={:?}", with_hash, hash)));
			}
			let cc = format!("{},comp:{}", cls, comp.name());
			let arch = match real::write_slpp(g, *comp) {
				Outcome::Ok(a) => a,
				o => {
					out.push(outcome_viol("slpp_write", &cls, &o));
					continue;
				}
			};
			let g2 = match real::read_slpp(&arch, false) {
				Outcome::Ok(g) => g,
				o => {
					out.push(outcome_viol("slpp_read", &cls, &o));
					continue;
				}
			};
			if g2.hash != hash {
				out.push(viol("slpp_hash", &cc, "mismatch", format!("{:?} vs {:?}", g2.hash, hash)));
			}
			if g2.quirks.map_or(false, |q| q.double_game_end) != quirk {
				out.push(viol("slpp_quirks", &cc, "mismatch", "double_game_end lost".into()));
			}
			self.check_game_level("slpp_read", &g2, out);
			let c = cols::from_immutable(&g2.frames);
			if let Some(m) = compare(&self.exp, &c, &CmpOpts { presence: true, rows: None, missing_ok_if_empty: false }) {
				out.push(viol("slpp_read_columns", &cc, "mismatch", m));
			}
			match real::write_slp(&g2) {
				Outcome::Ok(w) => {
					if let Some(i) = first_diff(&w, &self.built.bytes) {
						out.push(viol("slpp_roundtrip", &cc, "mismatch", format!("differs at byte {}", i)));
					}
				}
				o => out.push(outcome_viol("slpp_reserialise", &cc, &o)),
			}
		}
	}
}

/// Schema tree derived from the TLA+ field tables: id; ports.P<n>.leader/follower.pre/post;
/// start (>= 2.2); end, item list (>= 3.0).  Nesting follows the dotted field paths.
pub fn expected_schema(db: &LayoutDb, ver: [u8; 3], occ: &[String]) -> cols::SchemaNode {
	use cols::SchemaNode;
	let l = db.for_version(ver[0], ver[1]);
	fn insert(node: &mut SchemaNode, path: &[&str], ty: &str) {
		if path.len() == 1 {
			node.children.push(SchemaNode {
				name: path[0].to_string(),
				ty: ty.to_string(),
				children: vec![],
			});
		} else {
			if node.children.last().map_or(true, |c| c.name != path[0] || c.ty != "struct") {
				node.children.push(SchemaNode {
					name: path[0].to_string(),
					ty: "struct".into(),
					children: vec![],
				});
			}
			insert(node.children.last_mut().unwrap(), &path[1..], ty);
		}
	}
	let strukt = |name: &str, st: &crate::layout::StructL| {
		let mut n = SchemaNode {
			name: name.to_string(),
			ty: "struct".into(),
			children: vec![],
		};
		for f in &st.fields {
			let parts: Vec<&str> = f.n.split('.').collect();
			insert(&mut n, &parts, &f.t);
		}
		n
	};
	let data = |name: &str| SchemaNode {
		name: name.to_string(),
		ty: "struct".into(),
		children: vec![strukt("pre", &l.pre), strukt("post", &l.post)],
	};
	let mut ports = SchemaNode {
		name: "ports".into(),
		ty: "struct".into(),
		children: vec![],
	};
	for (p, o) in occ.iter().enumerate() {
		if o == "none" {
			continue;
		}
		let mut pn = SchemaNode {
			name: db.blocks.ports[p].clone(),
			ty: "struct".into(),
			children: vec![data("leader")],
		};
		if o == "ic" {
			pn.children.push(data("follower"));
		}
		ports.children.push(pn);
	}
	// Arrow cannot represent a struct without fields: such a struct (no occupied port; frame end
	// before it had any field) is not materialised in the schema.
	let mut root = SchemaNode {
		name: "frame".into(),
		ty: "struct".into(),
		children: vec![SchemaNode {
			name: "id".into(),
			ty: "i32".into(),
			children: vec![],
		}],
	};
	if !ports.children.is_empty() {
		root.children.push(ports);
	}
	if l.start.exists {
		root.children.push(strukt("start", &l.start));
	}
	if l.end.exists && !l.end.fields.is_empty() {
		root.children.push(strukt("end", &l.end));
	}
	if l.item.exists {
		root.children.push(SchemaNode {
			name: "item".into(),
			ty: "list".into(),
			children: vec![strukt("item", &l.item)],
		});
	}
	root
}

pub fn replay_record(beh: &Beh, built: &Built, seed: u64, plan: u8) -> serde_json::Value {
	json!({
		"beh": {
			"reg": beh.reg, "occ": beh.occ, "file_end": beh.file_end, "meta": beh.meta,
			"hist": beh.hist.iter().map(|e| json!({"k": e.k, "id": e.id, "p": e.p, "f": e.f, "x": e.x, "tok": e.tok})).collect::<Vec<_>>(),
		},
		"ver": built.ver, "seed": seed, "plan": plan,
		"bytes_hex": crate::util::hex(&built.bytes),
	})
}
