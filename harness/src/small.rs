//! C09 / C20 (versions), C15 (rollbacks), C19 (Shift-JIS names).

use std::str::FromStr;
use std::sync::atomic::{AtomicUsize, Ordering};

use serde::Deserialize;
use serde_json::json;

use peppi::frame::{immutable::Frame, Rollbacks};
use peppi::game::shift_jis::MeleeString;
use peppi::io::{peppi as ppi, slippi};

use crate::checks::viol;
use crate::fields::simple_beh;
use crate::gen::{self, GenOpts};
use crate::layout::LayoutDb;
use crate::real::{self, Comp};
use crate::util::{guard, guard_plain, parse_tlc_line, Outcome};
use crate::{Args, Sink};

fn par_for(n: usize, threads: usize, f: impl Fn(usize) + Sync) {
	let next = AtomicUsize::new(0);
	std::thread::scope(|s| {
		for _ in 0..threads.max(1) {
			s.spawn(|| loop {
				let i = next.fetch_add(1, Ordering::SeqCst);
				if i >= n {
					return;
				}
				crate::item_guard("item", || f(i));
			});
		}
	});
}

#[derive(Deserialize)]
struct VGrid {
	v: [u8; 3],
	refused: bool,
	peppi_refused: bool,
	display: String,
}
#[derive(Deserialize)]
struct VStr {
	s: String,
	parse: Vec<u8>,
}

/// C20: comparison, parsing and display.
pub fn cmd_version20(a: &Args) {
	let sink = Sink::new(a.get("replay-dir").unwrap_or("work/replays"));
	let threads = a.num("threads", 8) as usize;
	let full = a.has("full");
	let seed = a.num("seed", 1);
	// (1) gte / lt against the integer encoding, for (major, minor) x thresholds
	let stride = if full { 1 } else { 251 };
	par_for(256, threads, |maj| {
		let mut bad: Option<String> = None;
		let mut n = 0u64;
		for min in 0..256usize {
			let v = slippi::Version(maj as u8, min as u8, (maj ^ min) as u8);
			let ev = maj * 256 + min;
			let mut t = (seed as usize + maj * 7 + min) % stride;
			while t < 65536 {
				let (tm, tn) = ((t >> 8) as u8, (t & 255) as u8);
				let want = ev >= t;
				if v.gte(tm, tn) != want || v.lt(tm, tn) == want {
					bad.get_or_insert(format!("{}.{} vs threshold {}.{}: gte={} lt={}", maj, min, tm, tn, v.gte(tm, tn), v.lt(tm, tn)));
				}
				n += 1;
				t += stride;
			}
			// the thresholds adjacent to the version itself, always
			for d in [-257i64, -256, -255, -1, 0, 1, 255, 256, 257] {
				let t = ev as i64 + d;
				if (0..65536).contains(&t) {
					let (tm, tn) = ((t >> 8) as u8, (t & 255) as u8);
					let want = ev as i64 >= t;
					if v.gte(tm, tn) != want || v.lt(tm, tn) == want {
						bad.get_or_insert(format!("{}.{} vs threshold {}.{}", maj, min, tm, tn));
					}
					n += 1;
				}
			}
		}
		for _ in 0..n.min(1) {
			sink.count(0xC20_0000 + maj as u64, true);
		}
		sink.evals.fetch_add(n as usize, Ordering::Relaxed);
		if let Some(b) = bad {
			sink.report(&viol("gte_lt", &format!("major:{}", maj), "mismatch", b), &|| json!({"major": maj}));
		}
	});
	// (2) display / parse round trip for all 2^24 triples (both version types)
	let pstride = if full { 1 } else { 7 };
	par_for(256, threads, |maj| {
		let mut bad: Option<String> = None;
		let mut n = 0usize;
		for min in 0..256usize {
			let mut p = (seed as usize + maj + min) % pstride;
			while p < 256 {
				let v = slippi::Version(maj as u8, min as u8, p as u8);
				let s = format!("{}", v);
				let want = format!("{}.{}.{}", maj, min, p);
				if s != want {
					bad.get_or_insert(format!("display {:?} -> {}", v, s));
				}
				match slippi::Version::from_str(&s) {
					Ok(w) if w == v => {}
					other => {
						bad.get_or_insert(format!("slippi parse({}) = {:?}", s, other.map_err(|e| e.to_string())));
					}
				}
				let pv = ppi::Version(maj as u8, min as u8, p as u8);
				let ps = format!("{}", pv);
				match ppi::Version::from_str(&ps) {
					Ok(w) if w == pv && ps == want => {}
					other => {
						bad.get_or_insert(format!("peppi parse({}) = {:?}", ps, other.map_err(|e| e.to_string())));
					}
				}
				n += 1;
				p += pstride;
			}
		}
		sink.evals.fetch_add(n, Ordering::Relaxed);
		sink.count(0xC20_1000 + maj as u64, true);
		if let Some(b) = bad {
			sink.report(&viol("display_parse", &format!("major:{}", maj), "mismatch", b), &|| json!({"major": maj}));
		}
	});
	// (3)-(5) run twice: without and with a logger installed at trace level (log arguments evaluated)
	for logging_pass in [false, true] {
	crate::set_logging(logging_pass);
	// (3) the model's strings and grid
	if let Some(inp) = a.get("in") {
		for path in inp.split(',') {
			let text = std::fs::read_to_string(path).unwrap();
			for line in text.lines() {
				match parse_tlc_line(line) {
					Some((tag, v)) if tag == "VSTR" => {
						let x0: VStr = serde_json::from_value(v).unwrap();
						// the model's "~": a character outside the grammar, concretised in several ways
						let subs: Vec<char> = if x0.s.contains('~') { vec!['\0', '\n', '\t', '\r', '\u{a0}', '\u{3000}', '\u{feff}', '_', ','] } else { vec!['~'] };
						for sub in subs {
						let x = VStr { s: x0.s.replace('~', &sub.to_string()), parse: x0.parse.clone() };
						sink.count(crate::util::fnv(x.s.as_bytes()), !x.parse.is_empty());
						sink.sample(|| json!({"string": x.s, "model_parse": x.parse}));
						let r1 = guard(|| slippi::Version::from_str(&x.s));
						let r2 = guard(|| ppi::Version::from_str(&x.s));
						let got1 = match &r1 {
							Outcome::Ok(v) => vec![v.0, v.1, v.2],
							_ => vec![],
						};
						let got2 = match &r2 {
							Outcome::Ok(v) => vec![v.0, v.1, v.2],
							_ => vec![],
						};
						for (name, got, r) in [("slippi", got1, r1.kind()), ("peppi", got2, r2.kind())] {
							let want: Option<[u8; 3]> = if x.parse.len() == 3 { Some([x.parse[0], x.parse[1], x.parse[2]]) } else { None };
							let gotv: Option<[u8; 3]> = if got.len() == 3 { Some([got[0], got[1], got[2]]) } else { None };
							if r == "panic" {
								sink.report(&viol("parse_string", name, "panic", format!("parsing {:?}", x.s)), &|| json!({"s": x.s}));
							} else if let Some(cls) = parse_verdict(&x.s, want, gotv) {
								sink.report(&viol("parse_string", &format!("{},{}", name, cls), "mismatch", format!("{:?} parsed as {:?}, model {:?}", x.s, got, x.parse)), &|| json!({"s": x.s}));
							}
						}
						}
					}
					Some((tag, v)) if tag == "VGRID" => {
						let g: VGrid = serde_json::from_value(v).unwrap();
						sink.count(0xC20_2000 + ((g.v[0] as u64) << 16 | (g.v[1] as u64) << 8 | g.v[2] as u64), true);
						let v = slippi::Version(g.v[0], g.v[1], g.v[2]);
						if format!("{}", v) != g.display {
							sink.report(&viol("display", "grid", "mismatch", format!("{:?} displays as {}", g.v, v)), &|| json!({"v": g.v}));
						}
						let _ = (g.refused, g.peppi_refused);
					}
					_ => {}
				}
			}
		}
	}
	// (4) seeded random strings: accepted iff three dot-separated integers 0..255 (decimal digits, optional +)
	let mut r = crate::util::Rng::new(seed ^ 0x5712);
	let chars: Vec<char> = "0123456789.+- a\u{0660}\t\0\n\u{feff}".chars().collect();
	for _ in 0..a.num("random-strings", 20000) {
		let len = r.below(12) as usize;
		let s: String = (0..len).map(|_| *r.pick(&chars)).collect();
		let want = reference_parse(&s);
		sink.count(crate::util::fnv(s.as_bytes()), want.is_some());
		for (name, got) in [
			("slippi", guard(|| slippi::Version::from_str(&s)).ok().map(|v| [v.0, v.1, v.2])),
			("peppi", guard(|| ppi::Version::from_str(&s)).ok().map(|v| [v.0, v.1, v.2])),
		] {
			if let Some(cls) = parse_verdict(&s, want, got) {
				sink.report(&viol("parse_string", &format!("{},{}", name, cls), "mismatch", format!("{:?} parsed as {:?}, expected {:?}", s, got, want)), &|| json!({"s": s}));
			}
		}
	}
	// (4b) long strings with multi-byte characters at every offset (error paths that quote or slice the input)
	for k in (0..48usize).chain(180..300) {
		for tail in ["\u{e9}\u{e9}\u{e9}\u{e9}\u{e9}\u{e9}\u{e9}\u{e9}\u{e9}\u{e9}", "\u{30d7}\u{30d7}\u{30d7}\u{30d7}\u{30d7}\u{30d7}", "\u{1F600}\u{1F600}\u{1F600}\u{1F600}"] {
			for dots in [0usize, 1, 2, 3, 4] {
				let mut s0: String = "a".repeat(k);
				s0.push_str(tail);
				for d in 0..dots {
					let at = (d * 3).min(k);
					if s0.is_char_boundary(at) {
						s0.insert(at, '.');
					}
				}
				let want = reference_parse(&s0);
				sink.count(crate::util::fnv(s0.as_bytes()) ^ 0x4b, false);
				for (name, r) in [("slippi", guard(|| slippi::Version::from_str(&s0)).kind()), ("peppi", guard(|| ppi::Version::from_str(&s0)).kind())] {
					if r == "panic" {
						sink.report(&viol("parse_string", &format!("{},long_non_ascii", name), "panic", format!("parsing {:?} panicked", s0)), &|| json!({"s": s0}));
					} else if (r == "ok") != want.is_some() && want.is_none() {
						sink.report(&viol("parse_string", &format!("{},must_reject", name), "mismatch", format!("{:?} accepted", s0)), &|| json!({"s": s0}));
					}
				}
			}
		}
	}
	// (5) structured strings around the grammar's edges: values above 255, leading zeros, signs, blanks
	let pieces: Vec<String> = {
		let mut v: Vec<String> = ["", "0", "00", "000", "05", "005", "0005", "+5", "+0", "++5", "-0", "-1", " 5", "5 ", "0x1", "1e1", "\u{0665}", "255", "256", "257", "299", "300", "511", "512", "999", "1000", "65536", "4294967296", "18446744073709551616", "+255", "+256", "2 5", "5\0", "\05", "5\n", "\n5", "\u{feff}5", "5\r\n", "5\u{a0}"]
			.iter()
			.map(|s| s.to_string())
			.collect();
		for n in 0..=300u32 {
			v.push(n.to_string());
		}
		v
	};
	for _ in 0..a.num("random-strings", 20000) {
		let np = *r.pick(&[3usize, 3, 3, 3, 3, 3, 2, 4, 1]);
		let s: String = (0..np).map(|_| r.pick(&pieces).clone()).collect::<Vec<_>>().join(".");
		let want = reference_parse(&s);
		sink.count(crate::util::fnv(s.as_bytes()) ^ 0x57, want.is_some());
		for (name, got) in [
			("slippi", guard(|| slippi::Version::from_str(&s)).ok().map(|v| [v.0, v.1, v.2])),
			("peppi", guard(|| ppi::Version::from_str(&s)).ok().map(|v| [v.0, v.1, v.2])),
		] {
			if let Some(cls) = parse_verdict(&s, want, got) {
				sink.report(&viol("parse_string", &format!("{},{}", name, cls), "mismatch", format!("{:?} parsed as {:?}, expected {:?}", s, got, want)), &|| json!({"s": s}));
			}
		}
	}
	}
	crate::set_logging(false);
	sink.summary(json!({}));
}

/// What the property demands of parsing `s`, given the grammar's verdict `want`:
///  - not three integers in 0..255  => must be rejected;
///  - the canonical (Display) form   => must be accepted with that value;
///  - a lenient spelling of three integers (leading '+', leading zeros) => the property is silent on
///    whether it is accepted, but if it is, the value must be the right one.
/// Returns the class of the disagreement, if any.
fn parse_verdict(s: &str, want: Option<[u8; 3]>, got: Option<[u8; 3]>) -> Option<&'static str> {
	match (want, got) {
		(None, Some(_)) => Some("must_reject"),
		(None, None) => None,
		(Some(w), Some(g)) => (w != g).then_some("wrong_value"),
		(Some(w), None) => (s == format!("{}.{}.{}", w[0], w[1], w[2])).then_some("must_accept_canonical"),
	}
}

/// Three dot-separated pieces, each: optional '+', then 1+ ASCII digits, value <= 255.
fn reference_parse(s: &str) -> Option<[u8; 3]> {
	let ps: Vec<&str> = s.split('.').collect();
	if ps.len() != 3 {
		return None;
	}
	let mut out = [0u8; 3];
	for (i, p) in ps.iter().enumerate() {
		let body = p.strip_prefix('+').unwrap_or(p);
		if body.is_empty() || !body.bytes().all(|b| b.is_ascii_digit()) {
			return None;
		}
		let mut v: u32 = 0;
		for b in body.bytes() {
			v = v * 10 + (b - b'0') as u32;
			if v > 255 {
				return None;
			}
		}
		out[i] = v as u8;
	}
	Some(out)
}

/// C09: both writers refuse exactly the versions above the ceiling.
pub fn cmd_version09(a: &Args) {
	let db = LayoutDb::load(a.req("layout"));
	let sink = Sink::new(a.get("replay-dir").unwrap_or("work/replays"));
	let threads = a.num("threads", 8) as usize;
	let full = a.has("full");
	let seed = a.num("seed", 1);
	let max = db.blocks.max_supported;
	let refused = |v: [u8; 3]| (v[0], v[1], v[2]) > (max[0], max[1], max[2]);
	// the model's grid, when given, must agree with the ceiling as the harness reads it from the spec
	if let Some(inp) = a.get("in") {
		for line in std::fs::read_to_string(inp).unwrap().lines() {
			if let Some((tag, v)) = parse_tlc_line(line) {
				if tag == "VGRID" {
					let g: VGrid = serde_json::from_value(v).unwrap();
					assert_eq!(g.refused, refused(g.v), "harness ceiling and model disagree at {:?}", g.v);
				}
			}
		}
	}
	par_for(65536, threads, |mm| {
		let (maj, min) = ((mm >> 8) as u8, (mm & 255) as u8);
		// a zero-frame game whose columns match the version's layout: read a file of that version
		// (at or below the ceiling), or of the ceiling's layout with the version overwritten (above it)
		// (every 16th version at or below the ceiling: a game of the ceiling's layout WITH Gecko codes, relabelled: whatever
		// else the writers make of it, they do not refuse it for its version)
		let relabelled = (maj, min) <= (max[0], max[1]) && mm % 16 == 11;
		let base_ver = if relabelled { [max[0], max[1], 0] } else if (maj, min) <= (max[0], max[1]) && (maj, min) != (0, 0) { [maj, min, 0] } else if (maj, min) == (0, 0) { [0, 1, 0] } else { [max[0], max[1], 0] };
		let reg = db.regime_of(base_ver[0], base_ver[1]);
		// mostly zero-frame games; every 16th (major, minor) a game with frames, so that a guard which depends on
		// the frame count is seen too (a writer that gets past the guard on a newer version may then panic on the
		// columns: that is reported as well)
		let nframes = if mm % 16 == 5 { 2 } else { 0 };
		let mut beh = if relabelled { crate::fields::simple_beh_gecko(reg, &["single", "none", "ic", "none"], 0, 0, 1) } else { simple_beh(reg, &["single", "none", "ic", "none"], nframes, 0) };
		// every 8th (major, minor): a game without a Game End (a replay cut short), every 16th one without metadata
		if mm % 8 == 3 {
			beh.file_end = "none".into();
			beh.hist.pop();
			beh.steps.pop();
			beh.fin.gend = 0;
		}
		if mm % 16 == 9 {
			beh.meta = "none".into();
		}
		let o = GenOpts::new(seed ^ mm as u64, base_ver);
		let built = gen::build_beh(&db, &beh, &o);
		let patches: Vec<u8> = if full { (0..=255).collect() } else { vec![0, 1, ((seed as usize + mm) % 254 + 2) as u8, 255] };
		for p in patches {
			let v = [maj, min, p];
			sink.count(0xC09_0000_0000 + ((mm as u64) << 8) + p as u64, refused(v) != refused([maj, min, 0]) || p == 0);
			for writer in ["slp", "slpp"] {
				let mut g = match real::read_slp(&built.bytes, false, false) {
					Outcome::Ok(g) => g,
					o => {
						sink.report(&viol("version_base_read", "base", o.kind(), o.detail()), &|| json!({"ver": base_ver}));
						return;
					}
				};
				g.start.slippi.version = slippi::Version(maj, min, p);
				// each writer is called twice in a row with the same game (a retry, a batch): both answers count;
				// the .slpp writer with its options given and with none
				let res = if writer == "slp" {
					let r1 = real::write_slp(&g).is_ok_kind();
					let r2 = real::write_slp(&g).is_ok_kind();
					if r1 != r2 { "differs" } else { r1 }
				} else {
					let g_again = match real::read_slp(&built.bytes, false, false) {
						Outcome::Ok(mut g2) => {
							g2.start.slippi.version = slippi::Version(maj, min, p);
							g2
						}
						_ => return,
					};
					let r1 = if (mm + p as usize) % 2 == 0 { real::write_slpp(g, Comp::None).is_ok_kind() } else { real::write_slpp_noopts(g).is_ok_kind() };
					let r2 = if (mm + p as usize) % 2 == 0 { real::write_slpp_noopts(g_again).is_ok_kind() } else { real::write_slpp(g_again, Comp::all()[p as usize % 3]).is_ok_kind() };
					if r1 != r2 { "differs" } else { r1 }
				};
				let want_err = refused(v);
				let bad = match (res, want_err) {
					("err", true) | ("ok", false) => None,
					("ok", true) => Some(("mismatch", "accepted".to_string())),
					("differs", _) => Some(("mismatch", "answered differently by two calls in a row (options given / not given)".to_string())),
					("err", false) => Some(("mismatch", "refused".to_string())),
					(k, _) => Some(("panic", k.to_string())),
				};
				if let Some((kind, what)) = bad {
					let side = if want_err { "above_ceiling" } else { "at_or_below_ceiling" };
					sink.report(&viol("version_guard", &format!("writer:{},{}", writer, side), kind, format!("version {}.{}.{} {} by the {} writer", maj, min, p, what, writer)), &|| json!({"version": v, "writer": writer}));
				}
			}
		}
		if mm % 8192 == 0 {
			sink.sample(|| json!({"version_major_minor": [maj, min], "patches": if full { "all 256" } else { "0, 1, random, 255" }, "writers": ["slp", "slpp"]}));
		}
	});
	sink.summary(json!({}));
}

impl<T> Outcome<T> {
	pub fn is_ok_kind(&self) -> &'static str {
		self.kind()
	}
}

#[derive(Deserialize)]
struct IdsLine {
	ids: Vec<i64>,
	mode: String,
	mask: Vec<bool>,
}

/// A frame structure with the given id column; the other columns are irrelevant to the mask, and are
/// present (as for a recent version) or absent (as for an old one) depending on `with_start`.
fn frame_with_ids(ids: &[i32], with_start: bool) -> Frame {
	use arrow2::array::PrimitiveArray;
	Frame {
		id: PrimitiveArray::<i32>::from_vec(ids.to_vec()),
		ports: vec![],
		start: with_start.then(|| peppi::frame::immutable::Start {
			random_seed: PrimitiveArray::<u32>::from_vec(vec![0; ids.len()]),
			scene_frame_counter: None,
			validity: None,
		}),
		end: None,
		item_offset: None,
		item: None,
	}
}

fn declarative_mask(ids: &[i32], first: bool) -> Vec<bool> {
	(0..ids.len())
		.map(|k| if first { ids[..k].contains(&ids[k]) } else { ids[k + 1..].contains(&ids[k]) })
		.collect()
}

/// C15: rollback masks against the model's masks; long random sequences against the declarative definition.
pub fn cmd_rollbacks(a: &Args) {
	let sink = Sink::new(a.get("replay-dir").unwrap_or("work/replays"));
	let threads = a.num("threads", 8) as usize;
	let seed = a.num("seed", 1);
	for path in a.req("in").split(',') {
		crate::for_each_tagged(path, "IDS", threads, 1, usize::MAX, |_, v| {
			let l: IdsLine = serde_json::from_value(v).unwrap();
			let ids: Vec<i32> = l.ids.iter().map(|x| *x as i32).collect();
			let repeats = l.mask.iter().any(|b| *b);
			sink.count(crate::util::fnv(format!("{:?}{}", ids, l.mode).as_bytes()), repeats);
			sink.sample(|| json!({"ids": ids, "mode": l.mode, "model_mask": l.mask}));
			let f = frame_with_ids(&ids, ids.len() % 2 == 0);
			let keep = if l.mode == "first" { Rollbacks::ExceptFirst } else { Rollbacks::ExceptLast };
			let big = ids.iter().any(|x| *x > 1 << 30);
			let cls = format!("mode:{},{}", l.mode, if big { "ids_near_i32_max" } else { "small_ids" });
			match guard_plain(|| f.rollbacks(keep)) {
				Outcome::Ok(m) => {
					if m != l.mask {
						sink.report(&viol("rollback_mask", &cls, "mismatch", format!("ids {:?} ({}): {:?}, model {:?}", ids, l.mode, m, l.mask)), &|| json!({"ids": ids, "mode": l.mode}));
					}
				}
				o => sink.report(&viol("rollback_mask", &cls, o.kind(), format!("ids {:?}: {}", ids, o.detail())), &|| json!({"ids": ids, "mode": l.mode})),
			}
		});
	}
	// the same sequences as the id column of a game READ from a file, complete or cut inside its last frame
	if let Some(layout) = a.get("layout") {
		let db = LayoutDb::load(layout);
		for path in a.req("in").split(',') {
			crate::for_each_tagged(path, "IDS", threads, 7, usize::MAX, |idx, v| {
				let l: IdsLine = serde_json::from_value(v).unwrap();
				if l.ids.is_empty() || l.ids.iter().any(|x| *x > 1 << 30) {
					return;
				}
				let ids: Vec<i32> = l.ids.iter().map(|x| *x as i32).collect();
				// regimes with explicit frames: Frame Start only (2.2-2.x) and Frame Start + Frame End (3.0+)
				let reg = if idx % 2 == 0 { "C" } else { "B" };
				let mut beh = simple_beh(reg, &["single", "none", "none", "none"], ids.len(), idx % 2);
				// renumber the frames
				let mut fi = 0usize;
				let mut last = None;
				for e in beh.hist.iter_mut() {
					if e.k == "ge" {
						continue;
					}
					if last != Some(e.id) && last.is_some() {
						fi += 1;
					}
					last = Some(e.id);
					e.id = ids[fi.min(ids.len() - 1)] as i64;
				}
				let cut_last = idx % 3 == 0;
				if cut_last {
					// drop Game End and the tail of the last frame (keep its Frame Start and Pre)
					beh.hist.pop();
					beh.file_end = "none".into();
					while beh.hist.last().map_or(false, |e| e.k != "pre") {
						beh.hist.pop();
					}
				}
				let ver = if reg == "C" { [3, [0u8, 7, 16][idx % 3], 0] } else { [2, [2u8, 5, 200][idx % 3], 0] };
				let built = gen::build_beh(&db, &beh, &GenOpts::new(seed ^ idx as u64, ver));
				let g = match real::read_slp(&built.bytes, false, false) {
					Outcome::Ok(g) => g,
					_ => return,
				};
				let got_ids: Vec<i32> = g.frames.id.values().to_vec();
				sink.count(crate::util::fnv(&built.bytes), true);
				// one frame row (hence one mask entry) per frame occurrence in the file
				if got_ids != ids {
					sink.report(&viol("rollback_rows", &format!("parsed_game,regime:{}", reg), "mismatch", format!("file has frame ids {:?} but the game's rows are {:?}", ids, got_ids)), &|| json!({"ids": ids}));
				}
				for (mode, keep, first) in [("first", Rollbacks::ExceptFirst, true), ("last", Rollbacks::ExceptLast, false)] {
					let cls = format!("mode:{},parsed_game{}", mode, if cut_last { ",last_frame_unfinished" } else { "" });
					match guard_plain(|| g.frames.rollbacks(keep)) {
						Outcome::Ok(m) => {
							if m != declarative_mask(&got_ids, first) {
								sink.report(&viol("rollback_mask", &cls, "mismatch", format!("ids {:?}: {:?}", got_ids, m)), &|| json!({"ids": got_ids, "mode": mode}));
							}
						}
						o => sink.report(&viol("rollback_mask", &cls, o.kind(), format!("ids {:?}: {}", got_ids, o.detail())), &|| json!({"ids": got_ids, "mode": mode})),
					}
				}
			});
		}
	}
	// long sequences (beyond the model's bound): the implementation's masks are recorded and checked
	// against the declarative definition
	let nlong = a.num("long", 200) as usize;
	par_for(nlong, threads, |i| {
		let mut r = crate::util::Rng::keyed(seed, i as u64, 0xC15);
		let len = 1 + r.below(3000) as usize;
		let span = 1 + r.below(400) as i32;
		let mut ids: Vec<i32> = vec![];
		let mut cur = -123i32;
		for _ in 0..len {
			// mostly advance, sometimes roll back by a few frames, sometimes jump
			match r.below(10) {
				0 | 1 => cur = (cur - r.below(7) as i32).max(-123),
				2 => cur = -123 + r.below(span as u64) as i32,
				_ => cur += 1,
			}
			ids.push(cur);
		}
		let f = frame_with_ids(&ids, i % 2 == 0);
		for (mode, keep, first) in [("first", Rollbacks::ExceptFirst, true), ("last", Rollbacks::ExceptLast, false)] {
			sink.count(crate::util::fnv(format!("{:?}{}", &ids[..ids.len().min(64)], mode).as_bytes()) ^ i as u64, true);
			match guard_plain(|| f.rollbacks(keep)) {
				Outcome::Ok(m) => {
					if m != declarative_mask(&ids, first) {
						sink.report(&viol("rollback_mask", &format!("mode:{},long", mode), "mismatch", format!("sequence of {} ids", ids.len())), &|| json!({"ids": ids, "mode": mode}));
					}
				}
				o => sink.report(&viol("rollback_mask", &format!("mode:{},long", mode), o.kind(), o.detail()), &|| json!({"ids": ids, "mode": mode})),
			}
		}
	});
	sink.summary(json!({"long_sequences": nlong}));
}

#[derive(Deserialize)]
struct SjisLine {
	cls: Vec<String>,
	out: String,
}
#[derive(Deserialize)]
struct FixRanges {
	ranges: Vec<[i64; 3]>,
}

/// Representative bytes of a class.  `after_lead`: the previous byte was a pending lead byte, so this
/// byte is consumed as the second byte of a pair: pick one for which (lead, byte) is an assigned character.
fn class_bytes(c: &str, k: usize) -> u8 {
	let pick = |xs: &[u8]| xs[k % xs.len()];
	match c {
		"NUL" => 0,
		"LOW" => pick(&[0x01, 0x20, 0x31, 0x3F, 0x09]),
		"HI" => pick(&[0x40, 0x41, 0x5C, 0x7E, 0x61]),
		"DEL" => 0x7F,
		"X80" => 0x80,
		"LEAD1" => pick(&[0x81, 0x88, 0x9F, 0x93]),
		"XA0" => 0xA0,
		"KANA" => pick(&[0xA1, 0xB1, 0xDF]),
		"LEAD2" => pick(&[0xE0, 0xE5, 0xEA]),
		"BAD" => pick(&[0xFD, 0xFE, 0xFF]),
		_ => panic!("class {}", c),
	}
}

fn decode(b: &[u8]) -> Outcome<String> {
	guard(|| MeleeString::try_from(b).map(|m| m.0))
}

pub fn cmd_sjis(a: &Args) {
	let db = LayoutDb::load(a.req("layout"));
	let sink = Sink::new(a.get("replay-dir").unwrap_or("work/replays"));
	let threads = a.num("threads", 8) as usize;
	let seed = a.num("seed", 1);
	let mut ranges: Option<FixRanges> = None;
	for line in std::fs::read_to_string(a.req("in")).unwrap().lines() {
		if let Some((tag, v)) = parse_tlc_line(line) {
			if tag == "SJISFIX" {
				ranges = Some(serde_json::from_value(v).unwrap());
			}
		}
	}
	let ranges = ranges.expect("no SJISFIX line");
	// (1) the model's class sequences, concretised with assigned representatives, in each field width
	crate::for_each_tagged(a.req("in"), "SJIS", threads, 1, usize::MAX, |idx, v| {
		let l: SjisLine = serde_json::from_value(v).unwrap();
		for (wi, width) in [16usize, 31, 10].iter().enumerate() {
			if l.cls.len() > *width {
				continue;
			}
			// concretise: lead bytes 0x81 / 0xE0, whose pairs with the representative trail of every
			// trail class are assigned characters (JIS rows 1-2 and 63-64 are full)
			let mut bytes: Vec<u8> = vec![];
			let mut pending_lead = false;
			let mut after_nul = false;
			let mut standalone_x80 = false;
			for (k, c) in l.cls.iter().enumerate() {
				let mut b = class_bytes(c, k + idx + wi);
				if !after_nul {
					if !pending_lead && c == "X80" {
						standalone_x80 = true;
					}
					if pending_lead {
						b = match c.as_str() {
							"HI" => 0x40 + ((k + idx) % 0x3F) as u8,
							"X80" => 0x80,
							"LEAD1" => 0x9F,
							"XA0" => 0xA0,
							"KANA" => 0xA1,
							"LEAD2" => 0xE0,
							_ => b,
						};
						pending_lead = false;
					} else if c == "LEAD1" {
						b = 0x81;
						pending_lead = true;
					} else if c == "LEAD2" {
						b = 0xE0;
						pending_lead = true;
					}
					if c == "NUL" {
						after_nul = true;
					}
				}
				bytes.push(b);
			}
			// pad the field: NUL then garbage (the garbage must not matter), or exact fit
			let mut field = bytes.clone();
			let mut r = crate::util::Rng::keyed(seed, idx as u64, *width as u64);
			if field.len() < *width {
				field.push(0);
				// (every third field: stale ASCII text and further NULs after the first NUL; otherwise any bytes)
				let ascii_pad = (idx + wi) % 3 == 0;
				while field.len() < *width {
					field.push(if ascii_pad { *r.pick(&[0x41u8, 0x7A, 0x20, 0x00, 0x31, 0x7E]) } else { r.byte() });
				}
			}
			let cut: Vec<u8> = field.iter().cloned().take_while(|b| *b != 0).collect();
			sink.count(crate::util::fnv(&field), l.out == "err");
			sink.sample(|| json!({"classes": l.cls, "field_hex": crate::util::hex(&field), "model": l.out}));
			let got = decode(&field);
			let got_cut = decode(&cut);
			let cls = format!("model:{},width:{}", l.out, width);
			let report = |kind: &str, check: &str, d: String| sink.report(&viol(check, &cls, kind, d), &|| json!({"field_hex": crate::util::hex(&field), "classes": l.cls}));
			match (&got, l.out.as_str()) {
				(Outcome::Panic(p), _) => report("panic", "sjis_decode", p.clone()),
				(Outcome::Ok(s), "err") => report("mismatch", "sjis_strict", format!("structurally invalid bytes {} decoded to {:?}", crate::util::hex(&cut), s)),
				// (byte 0x80 decodes to U+0080 today; the property does not say, so its rejection is not an alarm)
				(Outcome::Err(_), "ok") if standalone_x80 => {}
				(Outcome::Err(e), "ok") => report("mismatch", "sjis_decode", format!("valid bytes {} rejected: {}", crate::util::hex(&cut), e)),
				_ => {}
			}
			match (&got, &got_cut) {
				(Outcome::Ok(a), Outcome::Ok(b)) => {
					if a != b {
						report("mismatch", "sjis_nul_cut", format!("bytes after the first NUL changed the result: {:?} vs {:?}", a, b));
					}
					if a.contains('\u{FFFD}') {
						report("mismatch", "sjis_strict", "replacement character in the result".into());
					}
					if a.contains('\0') {
						report("mismatch", "sjis_nul_cut", "NUL inside the decoded string".into());
					}
				}
				(Outcome::Err(_), Outcome::Err(_)) => {}
				(a2, b2) => report("mismatch", "sjis_nul_cut", format!("field decodes {} but its NUL-cut prefix decodes {}", a2.kind(), b2.kind())),
			}
		}
	});
	// (2) every two-byte sequence and every single byte (exhaustive), followed by NUL + garbage
	par_for(256, threads, |a0| {
		for b0 in 0..=256usize {
			let mut f = vec![a0 as u8];
			if b0 < 256 {
				f.push(b0 as u8);
			}
			f.push(0);
			// (stale ASCII text and a second NUL after the first NUL, or bytes that are never valid)
			if (a0 + b0) % 2 == 0 {
				f.extend_from_slice(&[0x43, 0x44, 0x00, 0x45]);
			} else {
				f.push(0xFE);
				f.push(0x41);
			}
			let cut: Vec<u8> = f.iter().cloned().take_while(|b| *b != 0).collect();
			let structurally_ok = predict(&cut);
			sink.count(0xC19_0000 + (a0 as u64) << 9 | b0 as u64, !structurally_ok);
			let got = decode(&f);
			let got_cut = decode(&cut);
			let cls = format!("pairs,{}", if structurally_ok { "valid" } else { "invalid" });
			let bad = match (&got, &got_cut) {
				(Outcome::Panic(p), _) => Some(("panic", "sjis_decode", p.clone())),
				(Outcome::Ok(s), _) if !structurally_ok => Some(("mismatch", "sjis_strict", format!("{} decoded to {:?}", crate::util::hex(&cut), s))),
				(Outcome::Ok(s), _) if s.contains('\u{FFFD}') => Some(("mismatch", "sjis_strict", "replacement character".into())),
				(Outcome::Ok(a), Outcome::Ok(b)) if a != b => Some(("mismatch", "sjis_nul_cut", format!("{:?} vs {:?}", a, b))),
				(Outcome::Ok(_), Outcome::Err(_)) | (Outcome::Err(_), Outcome::Ok(_)) => Some(("mismatch", "sjis_nul_cut", "field and its NUL-cut prefix disagree".into())),
				_ => None,
			};
			if let Some((kind, check, d)) = bad {
				sink.report(&viol(check, &cls, kind, d), &|| json!({"field_hex": crate::util::hex(&f)}));
			}
		}
	});
	// (3) name fields inside a real Game Start block: the decoded field equals the direct decode of its bytes
	for (vi, ver) in [[1u8, 3, 0], [3, 9, 0], [3, 16, 0]].iter().enumerate() {
		let reg = db.regime_of(ver[0], ver[1]);
		for k in 0..a.num("start-blocks", 200) as usize {
			let beh = simple_beh(reg, &["single", "ic", "single", "single"], 0, 0);
			let o = GenOpts::new(seed ^ ((k as u64) << 8) ^ vi as u64, *ver);
			let built = gen::build_beh(&db, &beh, &o);
			sink.count(crate::util::fnv(&built.start_block), true);
			let g = match real::read_slp(&built.bytes, false, false) {
				Outcome::Ok(g) => g,
				o2 => {
					sink.report(&viol("sjis_in_start", "read", o2.kind(), o2.detail()), &|| json!({"ver": ver}));
					continue;
				}
			};
			for (pi, pl) in g.start.players.iter().enumerate() {
				let port = pl.port as usize;
				for f in &db.blocks.start_player[port] {
					let (got, name): (Option<String>, &str) = match f.n.as_str() {
						"name_tag" => (pl.name_tag.as_ref().map(|m| m.0.clone()), "name_tag"),
						"netplay.name" => (pl.netplay.as_ref().map(|n| n.name.0.clone()), "netplay.name"),
						"netplay.code" => (pl.netplay.as_ref().map(|n| n.code.0.clone()), "netplay.code"),
						_ => continue,
					};
					let i = f.off - 1;
					if i + f.w > built.start_block.len() {
						if got.is_some() {
							sink.report(&viol("sjis_in_start", name, "mismatch", "field present although the block is too short".into()), &|| json!({"ver": ver}));
						}
						continue;
					}
					let raw = &built.start_block[i..i + f.w];
					let want = decode(raw).ok();
					if got != want {
						sink.report(&viol("sjis_in_start", name, "mismatch", format!("player {} {}: {:?}, direct decode of the field bytes {:?}", pi, name, got, want)), &|| json!({"ver": ver, "field_hex": crate::util::hex(raw)}));
					}
				}
			}
		}
	}
	// (3b) an invalid sequence in ANY port's name field (occupied or not) makes reading fail
	for (vi, ver) in [[1u8, 3, 0], [3, 9, 0], [3, 16, 0]].iter().enumerate() {
		let reg = db.regime_of(ver[0], ver[1]);
		for k in 0..a.num("start-blocks", 200) as usize / 4 {
			let beh = simple_beh(reg, &["single", "none", "ic", "none"], 0, 0);
			let o = GenOpts::new(seed ^ 0x3b ^ ((k as u64) << 8) ^ vi as u64, *ver);
			let built = gen::build_beh(&db, &beh, &o);
			let port = k % 4;
			let fields: Vec<&crate::layout::SField> = db.blocks.start_player[port].iter().filter(|f| f.k.starts_with("sjis") && f.off - 1 + f.w <= built.start_block.len()).collect();
			if fields.is_empty() {
				continue;
			}
			let f = fields[k % fields.len()];
			let bad: &[u8] = [&[0xFFu8][..], &[0x81, 0x20], &[0xA0], &[0x41, 0x85]][k % 4];
			let mut bytes = built.bytes.clone();
			let at = built.events_start - built.start_block.len() + (f.off - 1);
			for (j, b) in bad.iter().enumerate() {
				if j < f.w {
					bytes[at + j] = *b;
				}
			}
			// keep the invalid bytes before any NUL
			sink.count(crate::util::fnv(&bytes), true);
			let occupied = beh.occ[port] != "none";
			match real::read_slp(&bytes, false, false) {
				Outcome::Err(_) => {}
				Outcome::Ok(_) => sink.report(&viol("sjis_strict", &format!("field:{},port_occupied={}", f.n, occupied), "mismatch", format!("invalid Shift-JIS {} in the {} field of port {} was accepted", crate::util::hex(bad), f.n, port)), &|| json!({"ver": ver, "bytes_hex": crate::util::hex(&bytes)})),
				o2 => sink.report(&viol("sjis_strict", &format!("field:{}", f.n), o2.kind(), o2.detail()), &|| json!({"ver": ver})),
			}
		}
	}
	// (4) normalisation: all scalar values against the model's map; idempotent
	let fix = |c: u32| -> u32 {
		for r in &ranges.ranges {
			if (c as i64) >= r[0] && (c as i64) <= r[1] {
				return (c as i64 + r[2]) as u32;
			}
		}
		c
	};
	par_for(0x110, threads, |hi| {
		let mut s = String::new();
		let mut want = String::new();
		for lo in 0..0x1000u32 {
			let c = (hi as u32) << 12 | lo;
			if let Some(ch) = char::from_u32(c) {
				s.push(ch);
				want.push(char::from_u32(fix(c)).unwrap());
			}
		}
		sink.evals.fetch_add(s.chars().count(), Ordering::Relaxed);
		sink.count(0xC19_F000 + hi as u64, true);
		let m = MeleeString(s.clone());
		match guard_plain(|| m.to_normalized()) {
			Outcome::Ok(n) => {
				if n != want {
					let at = n.chars().zip(want.chars()).position(|(x, y)| x != y);
					sink.report(&viol("normalize", "map", "mismatch", format!("block {:#x}000: differs at index {:?}", hi, at)), &|| json!({"block": hi}));
				}
				let again = MeleeString(n.clone()).to_normalized();
				if again != n {
					sink.report(&viol("normalize", "idempotent", "mismatch", format!("block {:#x}000 not idempotent", hi)), &|| json!({"block": hi}));
				}
				if m.as_str() != s {
					sink.report(&viol("normalize", "as_str", "mismatch", "as_str differs".into()), &|| json!({"block": hi}));
				}
			}
			o => sink.report(&viol("normalize", "map", o.kind(), o.detail()), &|| json!({"block": hi})),
		}
	});
	// (4b) the map is per character: alone, first, last, doubled, between ASCII letters -- every character of the
	// model's ranges and their neighbours, ASCII, and a stride through all scalar values
	let mut cs: Vec<u32> = (0x20u32..0x80).collect();
	for r in &ranges.ranges {
		cs.extend((r[0] as u32).saturating_sub(2)..=(r[1] as u32 + 2));
	}
	cs.extend((0..0x110000u32).step_by(251));
	cs.extend([0x2019u32, 0x201D, 0x3000, 0xFF01, 0xFF5E, 0x1F600, 0x12019, 0x13000]);
	par_for(cs.len(), threads, |k| {
		let c = cs[k];
		let (ch, w) = match (char::from_u32(c), char::from_u32(fix(c))) {
			(Some(a), Some(b)) => (a, b),
			_ => return,
		};
		for (s0, want) in [
			(format!("{}", ch), format!("{}", w)),
			(format!("a{}", ch), format!("a{}", w)),
			(format!("{}a", ch), format!("{}a", w)),
			(format!("{}{}", ch, ch), format!("{}{}", w, w)),
			(format!("a{}b{} ", ch, ch), format!("a{}b{} ", w, w)),
			(format!(" {}", ch), format!(" {}", w)),
		] {
			sink.evals.fetch_add(1, Ordering::Relaxed);
			match guard_plain(|| MeleeString(s0.clone()).to_normalized()) {
				Outcome::Ok(n) => {
					if n != want {
						sink.report(&viol("normalize", "per_character", "mismatch", format!("{:?} normalised to {:?}, the per-character map gives {:?}", s0, n, want)), &|| json!({"s": s0}));
						return;
					}
				}
				o => {
					sink.report(&viol("normalize", "per_character", o.kind(), o.detail()), &|| json!({"s": s0}));
					return;
				}
			}
		}
	});
	sink.summary(json!({}));
}

/// Structural validity of NUL-free bytes (mirror of the TLA+ automaton, on concrete byte ranges).
fn predict(b: &[u8]) -> bool {
	let mut i = 0;
	while i < b.len() {
		let x = b[i];
		match x {
			0x01..=0x7F | 0x80 | 0xA1..=0xDF => i += 1,
			0x81..=0x9F | 0xE0..=0xFC => {
				if i + 1 >= b.len() {
					return false;
				}
				let t = b[i + 1];
				if !((0x40..=0x7E).contains(&t) || (0x80..=0xFC).contains(&t)) {
					return false;
				}
				i += 2;
			}
			_ => return false,
		}
	}
	true
}
