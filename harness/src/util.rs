//! Small utilities: PRNG, TLC output parsing, panic capture, watchdog.

use std::cell::RefCell;
use std::panic::{self, AssertUnwindSafe};
use std::sync::Once;

/// splitmix64: tiny, seedable, good enough for payload generation.
#[derive(Clone)]
pub struct Rng(pub u64);

impl Rng {
	pub fn new(seed: u64) -> Self {
		Rng(seed ^ 0x9E37_79B9_7F4A_7C15)
	}
	pub fn keyed(seed: u64, a: u64, b: u64) -> Self {
		let mut r = Rng::new(seed);
		r.0 ^= a.wrapping_mul(0xBF58_476D_1CE4_E5B9);
		r.next();
		r.0 ^= b.wrapping_mul(0x94D0_49BB_1331_11EB);
		r.next();
		r
	}
	pub fn next(&mut self) -> u64 {
		self.0 = self.0.wrapping_add(0x9E37_79B9_7F4A_7C15);
		let mut z = self.0;
		z = (z ^ (z >> 30)).wrapping_mul(0xBF58_476D_1CE4_E5B9);
		z = (z ^ (z >> 27)).wrapping_mul(0x94D0_49BB_1331_11EB);
		z ^ (z >> 31)
	}
	pub fn below(&mut self, n: u64) -> u64 {
		if n == 0 {
			0
		} else {
			self.next() % n
		}
	}
	pub fn byte(&mut self) -> u8 {
		(self.next() >> 32) as u8
	}
	pub fn fill(&mut self, buf: &mut [u8]) {
		for b in buf.iter_mut() {
			*b = self.byte();
		}
	}
	pub fn chance(&mut self, num: u64, den: u64) -> bool {
		self.below(den) < num
	}
	pub fn pick<'a, T>(&mut self, xs: &'a [T]) -> &'a T {
		&xs[self.below(xs.len() as u64) as usize]
	}
}

/// Parses one line of TLC output of the form `<<"TAG", "json-with-escapes">>`.
pub fn parse_tlc_line(line: &str) -> Option<(String, serde_json::Value)> {
	let line = line.trim_end();
	if !line.starts_with("<<\"") || !line.ends_with("\">>") {
		return None;
	}
	let rest = &line[3..];
	let q = rest.find('"')?;
	let tag = &rest[..q];
	let rest = &rest[q + 1..];
	let rest = rest.strip_prefix(", \"")?;
	let body = &rest[..rest.len() - 3];
	let mut s = String::with_capacity(body.len());
	let mut it = body.chars();
	while let Some(c) = it.next() {
		if c == '\\' {
			match it.next() {
				Some('"') => s.push('"'),
				Some('\\') => s.push('\\'),
				Some('n') => s.push('\n'),
				Some('t') => s.push('\t'),
				Some(o) => {
					s.push('\\');
					s.push(o)
				}
				None => s.push('\\'),
			}
		} else {
			s.push(c);
		}
	}
	let v: serde_json::Value = serde_json::from_str(&s).ok()?;
	Some((tag.to_string(), v))
}

thread_local! {
	static LAST_PANIC: RefCell<Option<String>> = RefCell::new(None);
}

static HOOK: Once = Once::new();

pub fn install_panic_hook() {
	HOOK.call_once(|| {
		panic::set_hook(Box::new(|info| {
			let loc = info
				.location()
				.map(|l| format!("{}:{}", l.file(), l.line()))
				.unwrap_or_else(|| "?".into());
			let msg = if let Some(s) = info.payload().downcast_ref::<&str>() {
				s.to_string()
			} else if let Some(s) = info.payload().downcast_ref::<String>() {
				s.clone()
			} else {
				"?".into()
			};
			let msg: String = msg.chars().take(160).collect();
			LAST_PANIC.with(|p| *p.borrow_mut() = Some(format!("{} @ {}", msg, loc)));
		}));
	});
}

/// Outcome of running a piece of the code under test.
#[derive(Debug, Clone)]
pub enum Outcome<T> {
	Ok(T),
	Err(String),
	Panic(String),
}

impl<T> Outcome<T> {
	pub fn kind(&self) -> &'static str {
		match self {
			Outcome::Ok(_) => "ok",
			Outcome::Err(_) => "err",
			Outcome::Panic(_) => "panic",
		}
	}
	pub fn detail(&self) -> String {
		match self {
			Outcome::Ok(_) => String::new(),
			Outcome::Err(e) => e.clone(),
			Outcome::Panic(p) => p.clone(),
		}
	}
	pub fn ok(self) -> Option<T> {
		match self {
			Outcome::Ok(t) => Some(t),
			_ => None,
		}
	}
	pub fn is_ok(&self) -> bool {
		matches!(self, Outcome::Ok(_))
	}
}

/// Runs `f`, turning a panic into data.
pub fn guard<T, E: std::fmt::Display>(f: impl FnOnce() -> Result<T, E>) -> Outcome<T> {
	install_panic_hook();
	match panic::catch_unwind(AssertUnwindSafe(f)) {
		Ok(Ok(t)) => Outcome::Ok(t),
		Ok(Err(e)) => Outcome::Err(format!("{}", e)),
		Err(_) => Outcome::Panic(
			LAST_PANIC
				.with(|p| p.borrow_mut().take())
				.unwrap_or_else(|| "?".into()),
		),
	}
}

pub fn guard_plain<T>(f: impl FnOnce() -> T) -> Outcome<T> {
	guard(|| Ok::<T, String>(f()))
}

pub fn hex(b: &[u8]) -> String {
	let mut s = String::with_capacity(b.len() * 2);
	for x in b {
		s.push_str(&format!("{:02x}", x));
	}
	s
}

pub fn unhex(s: &str) -> Vec<u8> {
	(0..s.len() / 2)
		.map(|i| u8::from_str_radix(&s[2 * i..2 * i + 2], 16).unwrap())
		.collect()
}

/// First index at which two byte strings differ (or the shorter length).
pub fn first_diff(a: &[u8], b: &[u8]) -> Option<usize> {
	let n = a.len().min(b.len());
	for i in 0..n {
		if a[i] != b[i] {
			return Some(i);
		}
	}
	if a.len() != b.len() {
		Some(n)
	} else {
		None
	}
}

/// FNV-1a, for distinctness counting.
pub fn fnv(bytes: &[u8]) -> u64 {
	let mut h: u64 = 0xcbf29ce484222325;
	for b in bytes {
		h ^= *b as u64;
		h = h.wrapping_mul(0x100000001b3);
	}
	h
}
