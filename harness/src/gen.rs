//! Abstract behaviours (as exported by TLC) and their concretisation into bytes.

use serde::Deserialize;
use std::collections::BTreeMap;

use crate::layout::{Layout, LayoutDb, SField, StructL};
use crate::util::Rng;

#[derive(Deserialize, Debug, Clone)]
pub struct AEvent {
	pub k: String,
	pub id: i64,
	pub p: i64,
	pub f: i64,
	pub x: i64,
	pub tok: usize,
}

#[derive(Deserialize, Debug, Clone)]
pub struct ADump {
	pub code: String,
	pub n: usize,
	pub toks: Vec<usize>,
}

#[derive(Deserialize, Debug, Clone)]
pub struct ACol {
	pub p: u8,
	pub f: u8,
	pub toks: Vec<usize>,
}

#[derive(Deserialize, Debug, Clone)]
pub struct AFin {
	pub ids: Vec<i32>,
	pub pre: Vec<ACol>,
	pub post: Vec<ACol>,
	pub fstart: Vec<usize>,
	pub fend: Vec<usize>,
	pub items: Vec<usize>,
	pub off: Vec<usize>,
	pub gend: usize,
	pub gecko: Vec<usize>,
	pub gactual: u32,
	pub quirk: bool,
	pub nev: usize,
}

#[derive(Deserialize, Debug, Clone)]
pub struct Beh {
	pub reg: String,
	pub occ: Vec<String>,
	pub hist: Vec<AEvent>,
	pub file_end: String,
	pub meta: String,
	pub fin: AFin,
	/// <<rows, closed rows>> after each event of the history
	#[serde(default)]
	pub steps: Vec<[usize; 2]>,
	/// the debug option's dump files: (code kind, index, tokens whose data the file holds)
	#[serde(default)]
	pub dump: Vec<ADump>,
	#[serde(default)]
	pub emit: Vec<AEvent>,
	#[serde(default)]
	pub table: Vec<String>,
	#[serde(default)]
	pub counts: BTreeMap<String, u64>,
	/// tolerated irregularities: extra bytes after the last event, inside the raw element
	#[serde(default)]
	pub junk: usize,
	/// tolerated irregularities: unknown (declared) events after Game End: before its duplicate / after it
	#[serde(default)]
	pub tail_unk: [usize; 2],
}

pub const FILE_SIGNATURE: [u8; 11] = [0x7b, 0x55, 0x03, 0x72, 0x61, 0x77, 0x5b, 0x24, 0x55, 0x23, 0x6c];
pub const META_KEY: [u8; 11] = [0x55, 0x08, 0x6d, 0x65, 0x74, 0x61, 0x64, 0x61, 0x74, 0x61, 0x7b];

/// Options of one concretisation.
#[derive(Clone, Debug)]
pub struct GenOpts {
	pub seed: u64,
	pub ver: [u8; 3],
	/// 0 = random payloads, 1 = random + special bit patterns
	pub plan: u8,
	/// extra trailing bytes appended to every known event payload (C08; versions above the ceiling)
	pub extra: usize,
	/// sizes of unknown event codes appearing in the history (code -> payload size)
	pub unk_sizes: BTreeMap<u8, u16>,
	/// metadata block to embed when the behaviour says meta = "some" (UBJSON map body incl. final `}`)
	pub meta_body: Option<Vec<u8>>,
	/// override the declared raw length with 0 (in-progress replay)
	pub raw_len_zero: bool,
	/// lengths of the Game Start / Game End blocks when they are not the ones the version prescribes (`extra` then
	/// applies to the frame events only)
	pub start_len: Option<usize>,
	pub end_len: Option<usize>,
}

impl GenOpts {
	pub fn new(seed: u64, ver: [u8; 3]) -> Self {
		GenOpts {
			seed,
			ver,
			plan: 1,
			extra: 0,
			unk_sizes: BTreeMap::new(),
			meta_body: None,
			raw_len_zero: false,
			start_len: None,
			end_len: None,
		}
	}
}

#[derive(Clone, Debug)]
pub struct Built {
	pub bytes: Vec<u8>,
	pub ver: [u8; 3],
	pub raw_len: u32,
	/// offset of the first byte of the raw element (the Payloads command byte)
	pub raw_start: usize,
	pub start_block: Vec<u8>,
	pub end_block: Vec<u8>,
	/// the full bytes (command byte first) of each file event, in file order
	pub ev_bufs: Vec<Vec<u8>>,
	/// file offset of each file event's command byte
	pub ev_offs: Vec<usize>,
	/// offset of the first event after Game Start
	pub events_start: usize,
	/// offset one past the last byte of the raw element
	pub raw_end: usize,
	pub table: Vec<(u8, u16)>,
	pub meta: Option<Vec<u8>>,
}

fn put_be(buf: &mut [u8], off: usize, w: usize, v: u64) {
	for i in 0..w {
		buf[off + i] = (v >> (8 * (w - 1 - i))) as u8;
	}
}

pub fn get_be(buf: &[u8], off: usize, w: usize) -> u64 {
	let mut v = 0u64;
	for i in 0..w {
		v = (v << 8) | buf[off + i] as u64;
	}
	v
}

const F32_SPECIAL: [u32; 12] = [
	0x7FC0_0000, // quiet NaN
	0x7FA0_0000, // signalling NaN
	0x7F80_0001, // signalling NaN, smallest payload
	0xFFFF_FFFF, // NaN, all ones
	0xFFC1_2345, // negative NaN with payload
	0x0000_0000, // +0
	0x8000_0000, // -0
	0x7F80_0000, // +inf
	0xFF80_0000, // -inf
	0x0000_0001, // smallest denormal
	0x807F_FFFF, // largest negative denormal
	0x3F80_0000, // 1.0
];

fn special(t: &str, r: &mut Rng) -> u64 {
	match t {
		"f32" => *r.pick(&F32_SPECIAL) as u64,
		// (event command bytes 0x10, 0x35..0x3D are planted too: data that looks like framing)
		"u8" | "i8" => *r.pick(&[0u64, 1, 0x7F, 0x80, 0xFE, 0xFF, 0xFF, 0xFF, 14, 3, 4, 0x39, 0x36, 0x10, 0x55, 0x7d]),
		"u16" | "i16" => *r.pick(&[0u64, 1, 0x7FFF, 0x8000, 0xFFFE, 0xFFFF, 0x0100, 0x00FF, 0x3939, 0x3900, 0x0039]),
		_ => *r.pick(&[0u64, 1, 0x7FFF_FFFF, 0x8000_0000, 0xFFFF_FFFE, 0xFFFF_FFFF, 0x0100_0000, 0x0000_00FF, 0x3939_3939, 0x3900_0039]),
	}
}

/// Bytes of one frame-level event (command byte first): header from the abstract event,
/// the struct's fields from the token's keyed PRNG stream overlaid with the pattern plan.
pub fn frame_event_bytes(st: &StructL, e: &AEvent, o: &GenOpts) -> Vec<u8> {
	let mut buf = vec![0u8; 1 + st.size + o.extra];
	let mut r = Rng::keyed(o.seed, e.tok as u64, st.code as u64);
	r.fill(&mut buf);
	buf[0] = st.code;
	put_be(&mut buf, 1, 4, (e.id as i32) as u32 as u64);
	if st.hdr == 7 {
		buf[5] = e.p as u8;
		buf[6] = e.f as u8;
	}
	if o.plan >= 1 {
		for f in &st.fields {
			if r.chance(1, 3) {
				let v = special(&f.t, &mut r);
				put_be(&mut buf, f.off, f.w, v);
			}
		}
	}
	buf
}

fn sjis_field(w: usize, r: &mut Rng) -> Vec<u8> {
	// valid Shift-JIS up to the first NUL, garbage after it
	let mut out = vec![];
	// 0..w-1 content bytes followed by a NUL, or (one time in four) content that fills the whole field
	let n = if r.chance(1, 4) { w } else { r.below(w as u64) as usize };
	// one time in five the content is mostly half-width katakana (1 byte here, 3 bytes of UTF-8: the decoded name is
	// up to three times as long as the field); one time in ten it is two-byte characters right up to the last byte
	let mode = r.below(10);
	while out.len() < n {
		let left = n - out.len();
		let pick = match mode {
			0 | 1 => if r.chance(1, 6) { 3 } else { 1 },
			2 => if left >= 2 && (left % 2 == 0 || r.chance(1, 2)) { 0 } else { 3 },
			_ => r.below(4),
		};
		match pick {
			0 if left >= 2 => {
				// two-byte: lead 0x88..0x97 (kanji level 1), trail 0x9F..0xFC: always mapped
				out.push(0x88 + r.below(0x10) as u8);
				out.push(0x9F + r.below(0x5E) as u8);
			}
			1 => out.push(0xA1 + r.below(0x3F) as u8), // half-width katakana
			_ => out.push(0x20 + r.below(0x5F) as u8), // ASCII printable
		}
	}
	out.truncate(w);
	if out.len() < w {
		out.push(0);
		// (one time in three: stale ASCII text and further NULs after the first NUL; otherwise any bytes)
		let ascii_pad = r.chance(1, 3);
		while out.len() < w {
			out.push(if ascii_pad { *r.pick(&[0x41u8, 0x7A, 0x20, 0x00, 0x31, 0x7E]) } else { r.byte() });
		}
	}
	out
}

fn utf8z_field(w: usize, r: &mut Rng) -> Vec<u8> {
	let mut out = vec![];
	let n = if r.chance(1, 6) { w } else { r.below(w as u64) as usize };
	while out.len() < n {
		out.push(0x21 + r.below(0x5E) as u8);
	}
	if out.len() < w {
		out.push(0);
		while out.len() < w {
			out.push(r.byte());
		}
	}
	out
}

fn put_sfield(buf: &mut [u8], f: &SField, r: &mut Rng) {
	let i = f.off - 1; // offsets are from the command byte; buf is the payload
	if i + f.w > buf.len() {
		return;
	}
	match f.k.as_str() {
		"ucf" => put_be(buf, i, 4, r.below(3)),
		"lang" => buf[i] = r.below(2) as u8,
		"sjis16" | "sjis31" | "sjis10" => {
			let v = sjis_field(f.w, r);
			buf[i..i + f.w].copy_from_slice(&v);
		}
		"utf8z29" | "utf8z51" => {
			let v = utf8z_field(f.w, r);
			buf[i..i + f.w].copy_from_slice(&v);
		}
		// flags: false about half of the time (a random byte would almost always read as true)
		"bool" => buf[i] = *r.pick(&[0u8, 0, 0, 1, 1, 2, 0xFF]),
		"endmethod" => buf[i] = *r.pick(&[0u8, 1, 2, 3, 7]),
		"lras" => buf[i] = *r.pick(&[0u8, 1, 2, 3, 255]),
		"placement" => buf[i] = *r.pick(&[0xFFu8, 0, 1, 2, 3]),
		_ => {}
	}
}

/// A well-formed Game Start payload for the version and port occupancy: every byte random except
/// those the reader validates.
pub fn build_start_block(db: &LayoutDb, ver: [u8; 3], occ: &[String], len: usize, r: &mut Rng) -> Vec<u8> {
	let mut buf = vec![0u8; len];
	r.fill(&mut buf);
	for f in &db.blocks.start_global {
		put_sfield(&mut buf, f, r);
	}
	if len >= 3 {
		buf[0] = ver[0];
		buf[1] = ver[1];
		buf[2] = ver[2];
	}
	for p in 0..4 {
		for f in &db.blocks.start_player[p] {
			put_sfield(&mut buf, f, r);
			let i = f.off - 1;
			if i >= buf.len() {
				continue;
			}
			match f.n.as_str() {
				"type" => {
					buf[i] = if occ[p] == "none" {
						*r.pick(&[3u8, 3, 3, 4, 255])
					} else {
						r.below(3) as u8
					}
				}
				"character" => {
					buf[i] = if occ[p] == "ic" {
						db.blocks.ice_climbers
					} else {
						// any byte but the Ice Climbers id; one time in six an id next to it or one that a reader might
						// confuse with it (13, 15; 32 and 33, the ids some tables give to Popo and Nana alone)
						let mut c = if r.chance(1, 6) { *r.pick(&[13u8, 15, 32, 33, 0, 25, 26, 255]) } else { r.byte() };
						if c == db.blocks.ice_climbers {
							c = 2;
						}
						c
					}
				}
				_ => {}
			}
		}
	}
	buf
}

pub fn build_end_block(db: &LayoutDb, len: usize, r: &mut Rng) -> Vec<u8> {
	let mut buf = vec![0u8; len];
	r.fill(&mut buf);
	for f in &db.blocks.end_fields {
		put_sfield(&mut buf, f, r);
	}
	buf
}

/// A typical metadata body (the bytes after `U\x08metadata{`, including the map's closing brace).
pub fn default_meta_body() -> Vec<u8> {
	let mut m = vec![];
	let key = |m: &mut Vec<u8>, k: &str| {
		m.push(b'U');
		m.push(k.len() as u8);
		m.extend_from_slice(k.as_bytes());
	};
	let st = |m: &mut Vec<u8>, s: &str| {
		m.push(b'S');
		m.push(b'U');
		m.push(s.len() as u8);
		m.extend_from_slice(s.as_bytes());
	};
	key(&mut m, "startAt");
	st(&mut m, "2020-08-01T19:42:48Z");
	key(&mut m, "lastFrame");
	m.push(b'l');
	m.extend_from_slice(&(-120i32).to_be_bytes());
	key(&mut m, "players");
	m.push(b'{');
	key(&mut m, "1");
	m.push(b'{');
	key(&mut m, "characters");
	m.push(b'{');
	key(&mut m, "18");
	m.push(b'l');
	m.extend_from_slice(&5209i32.to_be_bytes());
	m.push(b'}');
	key(&mut m, "names");
	m.push(b'{');
	key(&mut m, "netplay");
	st(&mut m, "\u{30d7}layer \u{00e9}");
	key(&mut m, "code");
	st(&mut m, "");
	m.push(b'}');
	m.push(b'}');
	m.push(b'}');
	key(&mut m, "playedOn");
	st(&mut m, "dolphin");
	m.push(b'}');
	m
}

fn table_code(l: &Layout, kind: &str) -> u8 {
	match kind {
		"gs" => 0x36,
		"ge" => 0x39,
		"gecko" => 0x3D,
		"split" => 0x10,
		"pre" => l.pre.code,
		"post" => l.post.code,
		"fs" => l.start.code,
		"fe" => l.end.code,
		"item" => l.item.code,
		_ => panic!("table kind {}", kind),
	}
}

/// The events the FILE contains, in order: the history, plus the duplicate of the Game End
/// when the file doubles it.
pub fn file_events(beh: &Beh) -> Vec<AEvent> {
	let mut evs = beh.hist.clone();
	let unk = |n: usize| AEvent { k: "unk".into(), id: 0, p: 0, f: 0, x: 64, tok: 900_000 + n };
	for i in 0..beh.tail_unk[0] {
		evs.push(unk(i));
	}
	if beh.file_end == "double" {
		if let Some(ge) = beh.hist.iter().find(|e| e.k == "ge") {
			evs.push(ge.clone());
		}
	}
	for i in 0..beh.tail_unk[1] {
		evs.push(unk(100 + i));
	}
	evs
}

/// Concretises an abstract file: `events` in order after Game Start; `table` is the payload-table
/// order as kinds.
pub fn build_file(
	db: &LayoutDb,
	occ: &[String],
	events: &[AEvent],
	table: &[String],
	gactual: u32,
	has_meta: bool,
	junk: usize,
	o: &GenOpts,
) -> Built {
	let l = db.for_version(o.ver[0], o.ver[1]);
	let mut r = Rng::keyed(o.seed, 0xB10C, 0);
	let block_extra = if o.start_len.is_some() || o.end_len.is_some() { 0 } else { o.extra };
	let start_block = build_start_block(db, o.ver, occ, o.start_len.unwrap_or(l.start_len + block_extra), &mut r);
	let end_block = build_end_block(db, o.end_len.unwrap_or(l.end_len + block_extra), &mut r);

	// payload table
	let mut tbl: Vec<(u8, u16)> = vec![];
	for k in table {
		let code = table_code(l, k);
		let size = match k.as_str() {
			"gs" => start_block.len(),
			"ge" => end_block.len(),
			"gecko" => (gactual & 0xFFFF) as usize,
			"split" => 516,
			"pre" => l.pre.size + o.extra,
			"post" => l.post.size + o.extra,
			"fs" => l.start.size + o.extra,
			"fe" => l.end.size + o.extra,
			"item" => l.item.size + o.extra,
			_ => unreachable!(),
		};
		tbl.push((code, size as u16));
	}
	for (c, s) in &o.unk_sizes {
		tbl.push((*c, *s));
	}

	let mut raw: Vec<u8> = vec![];
	raw.push(0x35);
	raw.push((tbl.len() * 3 + 1) as u8);
	for (c, s) in &tbl {
		raw.push(*c);
		raw.extend_from_slice(&s.to_be_bytes());
	}
	raw.push(0x36);
	raw.extend_from_slice(&start_block);
	let events_start_rel = raw.len();

	let mut ev_bufs = vec![];
	let mut ev_offs_rel = vec![];
	for e in events {
		let buf: Vec<u8> = match e.k.as_str() {
			"pre" => frame_event_bytes(&l.pre, e, o),
			"post" => frame_event_bytes(&l.post, e, o),
			"fs" => frame_event_bytes(&l.start, e, o),
			"fe" => frame_event_bytes(&l.end, e, o),
			"item" => frame_event_bytes(&l.item, e, o),
			"ge" => {
				let mut b = vec![0x39];
				b.extend_from_slice(&end_block);
				b
			}
			"split" => {
				let mut b = vec![0u8; 517];
				let mut rr = Rng::keyed(o.seed, e.tok as u64, 0x10);
				rr.fill(&mut b);
				b[0] = 0x10;
				b[513] = (e.x >> 8) as u8;
				b[514] = e.x as u8;
				b[515] = e.p as u8;
				b[516] = e.f as u8;
				b
			}
			"unk" => {
				let code = e.x as u8;
				let size = *o.unk_sizes.get(&code).expect("unknown code without size") as usize;
				let mut b = vec![0u8; 1 + size];
				let mut rr = Rng::keyed(o.seed, e.tok as u64, code as u64);
				rr.fill(&mut b);
				b[0] = code;
				b
			}
			k => panic!("cannot concretise event kind {}", k),
		};
		ev_offs_rel.push(raw.len());
		raw.extend_from_slice(&buf);
		ev_bufs.push(buf);
	}
	// junk is bytes that are NOT a declared event: it begins with a code the payload table does not list (the reader
	// walks the declared events after Game End; what follows an undeclared code is extra content)
	for k in 0..junk {
		let mut b = r.byte();
		if k == 0 {
			b = (1u8..0x10).find(|c| !tbl.iter().any(|(tc, _)| tc == c)).unwrap_or(0x01);
		}
		raw.push(b);
	}

	let raw_len = raw.len() as u32;
	let mut bytes = vec![];
	bytes.extend_from_slice(&FILE_SIGNATURE);
	bytes.extend_from_slice(&(if o.raw_len_zero { 0 } else { raw_len }).to_be_bytes());
	let raw_start = bytes.len();
	bytes.extend_from_slice(&raw);
	let raw_end = bytes.len();
	let meta = if has_meta {
		Some(o.meta_body.clone().unwrap_or_else(default_meta_body))
	} else {
		None
	};
	if let Some(m) = &meta {
		bytes.extend_from_slice(&META_KEY);
		bytes.extend_from_slice(m);
	}
	bytes.push(0x7d);

	Built {
		bytes,
		ver: o.ver,
		raw_len,
		raw_start,
		start_block,
		end_block,
		ev_bufs,
		ev_offs: ev_offs_rel.iter().map(|x| x + raw_start).collect(),
		events_start: events_start_rel + raw_start,
		raw_end,
		table: tbl,
		meta,
	}
}

/// Concretises a behaviour exported by the recorder model.
pub fn build_beh(db: &LayoutDb, beh: &Beh, o: &GenOpts) -> Built {
	let evs = file_events(beh);
	let l = db.for_version(o.ver[0], o.ver[1]);
	// the exported table assumes a Gecko-capable version; drop those entries otherwise
	let table: Vec<String> = beh
		.table
		.iter()
		.filter(|k| l.gecko || (*k != "gecko" && *k != "split"))
		.cloned()
		.collect();
	build_file(db, &beh.occ, &evs, &table, beh.fin.gactual, beh.meta == "some", beh.junk, o)
}

/// Versions (major, minor) a behaviour can be concretised for: its regime, and Gecko blocks only
/// where the version has them.
pub fn versions_for(db: &LayoutDb, beh: &Beh) -> Vec<(u8, u8)> {
	let has_gecko = beh.hist.iter().any(|e| e.k == "split");
	db.versions_of_regime(&beh.reg)
		.into_iter()
		.filter(|(a, b)| !has_gecko || db.for_version(*a, *b).gecko)
		.collect()
}
