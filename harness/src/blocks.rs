//! C05: Game Start / Game End fields equal the values at their spec offsets in the raw block;
//! optional fields present exactly when the block is long enough; players; JSON rendering.

use serde::Deserialize;
use serde_json::{json, Map, Value};

use peppi::game::shift_jis::MeleeString;
use peppi::io::slippi;

use crate::checks::viol;
use crate::gen::{self, get_be};
use crate::layout::{LayoutDb, SField};
use crate::real::{self, Comp};
use crate::stream::{Frag, FragReader};
use crate::util::{fnv, guard, Outcome, Rng};
use crate::{Args, Sink};

#[derive(Deserialize, Debug, Clone)]
struct Blk {
	kind: String,
	len: usize,
	groups: i64,
}

/// A minimal file whose Game Start / Game End payloads are the given blocks.
fn file_with_blocks(start: &[u8], end: Option<&[u8]>, end_table_len: usize) -> Vec<u8> {
	let tbl: Vec<(u8, u16)> = vec![(0x36, start.len() as u16), (0x37, 58), (0x38, 33), (0x39, end_table_len as u16)];
	let mut raw = vec![0x35u8, (tbl.len() * 3 + 1) as u8];
	for (c, s) in &tbl {
		raw.push(*c);
		raw.extend_from_slice(&s.to_be_bytes());
	}
	raw.push(0x36);
	raw.extend_from_slice(start);
	if let Some(e) = end {
		raw.push(0x39);
		raw.extend_from_slice(e);
	}
	let mut b = vec![];
	b.extend_from_slice(&gen::FILE_SIGNATURE);
	b.extend_from_slice(&(raw.len() as u32).to_be_bytes());
	b.extend_from_slice(&raw);
	b.push(0x7d);
	b
}

fn set_path(root: &mut Value, path: &str, v: Value) {
	let parts: Vec<&str> = path.split('.').collect();
	let mut cur = root;
	for (i, p) in parts.iter().enumerate() {
		let last = i + 1 == parts.len();
		let next_is_index = !last && parts[i + 1].parse::<usize>().is_ok();
		if let Ok(ix) = p.parse::<usize>() {
			let arr = cur.as_array_mut().unwrap();
			while arr.len() <= ix {
				arr.push(Value::Null);
			}
			if last {
				arr[ix] = v;
				return;
			}
			cur = &mut arr[ix];
		} else {
			let obj = cur.as_object_mut().unwrap();
			if last {
				obj.insert(p.to_string(), v);
				return;
			}
			cur = obj.entry(p.to_string()).or_insert_with(|| if next_is_index { Value::Array(vec![]) } else { Value::Object(Map::new()) });
		}
	}
}

fn f32_json(bits: u32) -> Value {
	// the same conversion serde_json applies to an f32 written as text and parsed back
	let f = f32::from_bits(bits);
	serde_json::from_slice(&serde_json::to_vec(&f).unwrap()).unwrap()
}

/// Value of a mapped field as JSON, or Err if the reader must reject the block because of it.
fn field_json(db: &LayoutDb, f: &SField, blk: &[u8]) -> Result<Value, String> {
	let i = f.off - 1;
	let raw = &blk[i..i + f.w];
	Ok(match f.k.as_str() {
		"u8" => json!(raw[0]),
		"i8" | "placement" => json!(raw[0] as i8),
		"bool" => json!(raw[0] != 0),
		"u16" => json!(get_be(raw, 0, 2)),
		"u32" => json!(get_be(raw, 0, 4)),
		"f32" => f32_json(get_be(raw, 0, 4) as u32),
		"bytes4" | "bytes5" => json!(raw.to_vec()),
		"ptype" => match db.blocks.player_types.get(raw[0] as usize) {
			Some(n) => json!(n),
			None => Value::Null, // not a player
		},
		"ucf" => match get_be(raw, 0, 4) {
			0 => Value::Null,
			x if (x as usize) <= db.blocks.ucf_names.len() => json!(db.blocks.ucf_names[x as usize - 1]),
			x => return Err(format!("{} = {}", f.n, x)),
		},
		"lang" => match db.blocks.languages.get(raw[0] as usize) {
			Some(n) => json!(n),
			None => return Err(format!("language = {}", raw[0])),
		},
		"sjis16" | "sjis31" | "sjis10" => match MeleeString::try_from(raw) {
			Ok(m) => json!(m.0),
			Err(_) => return Err(format!("{} is not valid Shift-JIS", f.n)),
		},
		"utf8z29" | "utf8z51" => {
			let cut = raw.iter().position(|b| *b == 0).unwrap_or(raw.len() - 1);
			match std::str::from_utf8(&raw[..cut]) {
				Ok(s) => json!(s),
				Err(_) => return Err(format!("{} is not valid UTF-8", f.n)),
			}
		}
		"endmethod" => match db.blocks.end_methods.get(&raw[0].to_string()) {
			Some(n) => json!(n),
			None => return Err(format!("end method = {}", raw[0])),
		},
		"lras" => match raw[0] {
			255 => Value::Null,
			p if (p as usize) < db.blocks.ports.len() => json!(db.blocks.ports[p as usize]),
			p => return Err(format!("LRAS initiator = {}", p)),
		},
		k => panic!("field kind {}", k),
	})
}

/// The JSON the specification's field map prescribes for a Game Start block; Err = must be rejected.
pub fn expected_start_json(db: &LayoutDb, blk: &[u8], ngroups: usize) -> Result<Value, String> {
	let present = |g: &str| db.blocks.start_groups.iter().position(|x| x.name == g).map_or(false, |i| i < ngroups);
	let mut root = json!({});
	for f in &db.blocks.start_global {
		if present(&f.g) {
			set_path(&mut root, &f.n, field_json(db, f, blk)?);
		}
	}
	let is_teams = root["is_teams"].as_bool().unwrap();
	let mut players = vec![];
	for p in 0..4 {
		let fs = &db.blocks.start_player[p];
		let ty = field_json(db, fs.iter().find(|f| f.n == "type").unwrap(), blk)?;
		// every port's optional fields are validated, whether or not the port is a player
		let mut pl = json!({"port": db.blocks.ports[p]});
		for f in fs {
			if !present(&f.g) {
				continue;
			}
			let v = field_json(db, f, blk)?;
			set_path(&mut pl, &f.n, v);
		}
		if ty.is_null() {
			continue;
		}
		if !is_teams {
			pl["team"] = Value::Null;
		}
		if ty != json!(db.blocks.player_types[1]) {
			pl["cpu_level"] = Value::Null;
		}
		players.push(pl);
	}
	root["players"] = Value::Array(players);
	Ok(root)
}

pub fn expected_end_json(db: &LayoutDb, blk: &[u8], ngroups: usize) -> Result<Value, String> {
	let present = |g: &str| db.blocks.end_groups.iter().position(|x| x.name == g).map_or(false, |i| i < ngroups);
	let mut root = json!({});
	let mut placements: Vec<(usize, i8)> = vec![];
	for f in &db.blocks.end_fields {
		if !present(&f.g) {
			continue;
		}
		if f.k == "placement" {
			let v = blk[f.off - 1] as i8;
			if !(-1..=3).contains(&v) {
				return Err(format!("placement {}", v));
			}
			placements.push((f.n.rsplit('.').next().unwrap().parse().unwrap(), v));
		} else {
			set_path(&mut root, &f.n, field_json(db, f, blk)?);
		}
	}
	if present("placements") {
		root["players"] = Value::Array(placements.iter().filter(|(_, v)| *v >= 0).map(|(p, v)| json!({"port": db.blocks.ports[*p], "placement": v})).collect());
	}
	Ok(root)
}

pub fn render<T: serde::Serialize>(x: &T) -> Value {
	serde_json::from_slice(&serde_json::to_vec(x).unwrap()).unwrap()
}

fn parse_start_only(bytes: &[u8]) -> Outcome<peppi::game::Start> {
	let mut r = FragReader::new(bytes, Frag::Whole);
	guard(|| {
		slippi::de::parse_header(&mut r, None)?;
		let st = slippi::de::parse_start(&mut r, None)?;
		Ok::<_, peppi::io::Error>(peppi::game::Game::start(&st).clone())
	})
}

fn check_start_block(db: &LayoutDb, blk: &[u8], ngroups: i64, cls: &str, sink: &Sink) {
	let bytes = file_with_blocks(blk, None, 1);
	let want = if ngroups < 0 { Err("block length".to_string()) } else { expected_start_json(db, blk, ngroups as usize) };
	let got = parse_start_only(&bytes);
	let report = |check: &str, kind: &str, d: String| sink.report(&viol(check, cls, kind, d), &|| json!({"start_block_hex": crate::util::hex(blk)}));
	match (&got, &want) {
		(Outcome::Panic(p), _) => report("start_block", "panic", p.clone()),
		(Outcome::Ok(_), Err(why)) => report("start_block_accepted", "mismatch", format!("accepted although the model rejects it ({})", why)),
		(Outcome::Err(e), Ok(_)) => report("start_block_rejected", "err", format!("rejected although well-formed: {}", e)),
		(Outcome::Err(_), Err(_)) => {}
		(Outcome::Ok(s), Ok(w)) => {
			if s.bytes.0 != blk {
				report("start_bytes", "mismatch", "raw block not retained unchanged".into());
			}
			let j = render(s);
			if &j != w {
				let d = diff_json(&j, w, "start");
				report("start_fields", "mismatch", d);
			}
			// floats bit for bit (JSON cannot tell NaN payloads apart)
			for f in db.blocks.start_global.iter().filter(|f| f.k == "f32" && f.n == "damage_ratio") {
				if s.damage_ratio.to_bits() as u64 != get_be(blk, f.off - 1, 4) {
					report("start_fields", "mismatch", "damage_ratio bits differ".into());
				}
			}
			for pl in &s.players {
				let fs = &db.blocks.start_player[pl.port as usize];
				for (name, bits) in [("offense_ratio", pl.offense_ratio.to_bits()), ("defense_ratio", pl.defense_ratio.to_bits()), ("model_scale", pl.model_scale.to_bits())] {
					let f = fs.iter().find(|f| f.n == name).unwrap();
					if bits as u64 != get_be(blk, f.off - 1, 4) {
						report("start_fields", "mismatch", format!("player {} {} bits differ", pl.port, name));
					}
				}
			}
		}
	}
}

pub fn diff_json(a: &Value, b: &Value, path: &str) -> String {
	match (a, b) {
		(Value::Object(x), Value::Object(y)) => {
			for (k, v) in x {
				match y.get(k) {
					None => return format!("{}.{} present ({}) but the model omits it", path, k, v),
					Some(w) => {
						if v != w {
							return diff_json(v, w, &format!("{}.{}", path, k));
						}
					}
				}
			}
			for k in y.keys() {
				if !x.contains_key(k) {
					return format!("{}.{} missing", path, k);
				}
			}
			format!("{} differs", path)
		}
		(Value::Array(x), Value::Array(y)) => {
			if x.len() != y.len() {
				return format!("{}: {} elements, model {}", path, x.len(), y.len());
			}
			for (i, (v, w)) in x.iter().zip(y.iter()).enumerate() {
				if v != w {
					return diff_json(v, w, &format!("{}[{}]", path, i));
				}
			}
			format!("{} differs", path)
		}
		_ => format!("{}: {} but the value at the spec offset renders as {}", path, a, b),
	}
}

fn check_end_block(db: &LayoutDb, blk: &[u8], ngroups: i64, cls: &str, sink: &Sink, seed: u64) {
	let mut r = Rng::new(seed ^ fnv(blk));
	// the Game Start of the file is of a version whose own Game End is shorter, equal or longer than the block
	// (what a Game End block holds is decided by its length alone)
	let ver = [[3u8, 16, 0], [1, 0, 0], [2, 0, 0], [3, 12, 0], [0, 1, 0], [3, 13, 0]][(fnv(blk) % 6) as usize];
	let start = gen::build_start_block(db, ver, &["single".to_string(), "single".into(), "none".into(), "none".into()], db.for_version(ver[0], ver[1]).start_len, &mut r);
	let bytes = file_with_blocks(&start, Some(blk), blk.len().max(1));
	let want = if ngroups < 0 || blk.is_empty() { Err("block length".to_string()) } else { expected_end_json(db, blk, ngroups as usize) };
	let report = |check: &str, kind: &str, d: String| sink.report(&viol(check, cls, kind, d), &|| json!({"end_block_hex": crate::util::hex(blk)}));
	if blk.is_empty() {
		return; // a zero-size payload cannot be declared
	}
	match (real::read_slp(&bytes, false, false), &want) {
		(Outcome::Panic(p), _) => report("end_block", "panic", p),
		(Outcome::Ok(_), Err(why)) => report("end_block_accepted", "mismatch", format!("accepted although the model rejects it ({})", why)),
		(Outcome::Err(e), Ok(_)) => report("end_block_rejected", "err", format!("rejected although well-formed: {}", e)),
		(Outcome::Err(_), Err(_)) => {}
		(Outcome::Ok(g), Ok(w)) => match &g.end {
			None => report("end_fields", "mismatch", "no Game End reported".into()),
			Some(e) => {
				if e.bytes.0 != blk {
					report("end_bytes", "mismatch", "raw block not retained unchanged".into());
				}
				let j = render(e);
				if &j != w {
					report("end_fields", "mismatch", diff_json(&j, w, "end"));
				}
			}
		},
	}
}

pub fn cmd_blocks(a: &Args) {
	let db = LayoutDb::load(a.req("layout"));
	let sink = Sink::new(a.get("replay-dir").unwrap_or("work/replays"));
	let seed = a.num("seed", 1);
	let threads = a.num("threads", 8) as usize;
	let per_len = a.num("per-len", 3) as usize;
	let sweep_vals = a.num("sweep-values", 8) as usize;
	let type_patterns: [[u8; 4]; 10] = [[0, 3, 3, 3], [0, 1, 3, 3], [1, 2, 0, 3], [3, 3, 3, 3], [0, 0, 0, 0], [3, 0, 3, 1], [4, 0, 255, 2], [2, 2, 2, 2], [3, 3, 0, 0], [1, 3, 3, 0]];
	// (1) every block length of the model, with several occupancy / type patterns, teams on and off
	crate::for_each_tagged(a.req("in"), "BLK", threads, 1, usize::MAX, |idx, v| {
		let b: Blk = serde_json::from_value(v).unwrap();
		if b.kind == "start" {
			// the table's outcome and the state machine's must agree (both come from the specification)
			assert_eq!(db.blocks.start_len_outcome[b.len], b.groups);
			for k in 0..per_len {
				let mut r = Rng::keyed(seed, idx as u64, k as u64);
				let tp = type_patterns[(idx + k) % type_patterns.len()];
				let occ: Vec<String> = tp.iter().map(|t| if *t <= 2 { if r.chance(1, 4) { "ic".to_string() } else { "single".to_string() } } else { "none".to_string() }).collect();
				let ver = [r.byte(), r.byte(), r.byte()];
				let mut blk = gen::build_start_block(&db, ver, &occ, b.len, &mut r);
				// exact type bytes of the pattern (including non-player values 4 and 255), teams flag
				for p in 0..4 {
					let f = db.blocks.start_player[p].iter().find(|f| f.n == "type").unwrap();
					if f.off - 1 < blk.len() {
						blk[f.off - 1] = tp[p];
					}
				}
				if let Some(f) = db.blocks.start_global.iter().find(|f| f.n == "is_teams") {
					if f.off - 1 < blk.len() {
						blk[f.off - 1] = [0u8, 1, 0, 2][(idx + k) % 4];
					}
				}
				sink.count(fnv(&blk), b.groups >= 0);
				sink.sample(|| json!({"kind": "start", "block_len": b.len, "groups_present": b.groups, "types": tp}));
				check_start_block(&db, &blk, b.groups, &format!("start,len:{}", len_class(&db, b.len)), &sink);
			}
		} else {
			assert_eq!(db.blocks.end_len_outcome[b.len], b.groups);
			for k in 0..(per_len * 4) {
				let mut r = Rng::keyed(seed, idx as u64, 100 + k as u64);
				let blk = gen::build_end_block(&db, b.len, &mut r);
				sink.count(fnv(&blk) ^ b.len as u64, b.groups >= 0);
				check_end_block(&db, &blk, b.groups, &format!("end,len:{}", b.len), &sink, seed);
			}
		}
	});
	// (2) one-byte sweeps over every mapped byte at the nominal lengths
	let nominal: Vec<usize> = db.blocks.start_len_outcome.iter().enumerate().filter(|(l, n)| **n >= 0 && db.blocks.start_groups.iter().take(**n as usize).map(|g| g.size).sum::<usize>() == *l).map(|(l, _)| l).collect();
	let work: Vec<(usize, SField)> = nominal
		.iter()
		.flat_map(|l| {
			let mut fs: Vec<SField> = db.blocks.start_global.clone();
			for p in 0..4 {
				fs.extend(db.blocks.start_player[p].iter().cloned());
			}
			fs.into_iter().filter(move |f| f.off - 1 + f.w <= *l).map(move |f| (*l, f))
		})
		.collect();
	let next = std::sync::atomic::AtomicUsize::new(0);
	std::thread::scope(|s| {
		for _ in 0..threads {
			s.spawn(|| loop {
				let i = next.fetch_add(1, std::sync::atomic::Ordering::SeqCst);
				if i >= work.len() {
					return;
				}
				let (len, f) = &work[i];
				let ngroups = db.blocks.start_len_outcome[*len];
				let mut r = Rng::keyed(seed, i as u64, 0xC05);
				let occ: Vec<String> = vec!["single".into(), "ic".into(), "none".into(), "single".into()];
				let base = gen::build_start_block(&db, [3, 16, 0], &occ, *len, &mut r);
				// every byte of the field: a set of values (all 256 in the thorough tier)
				for bi in 0..f.w {
					let vals: Vec<u8> = if sweep_vals >= 256 { (0..=255).collect() } else { (0..sweep_vals).map(|k| [0u8, 1, 2, 3, 0x7F, 0x80, 0xFE, 0xFF][k % 8].wrapping_add((k / 8) as u8 * 17)).chain(std::iter::once(r.byte())).collect() };
					for v in vals {
						let mut blk = base.clone();
						blk[f.off - 1 + bi] = v;
						sink.count(fnv(&blk), true);
						check_start_block(&db, &blk, ngroups, &format!("start,len:{},sweep:{}", len, f.k), &sink);
					}
				}
			});
		}
	});
	// (3) Game End: every method x LRAS x placement byte value at each length class
	for len in [1usize, 2, 6] {
		let ngroups = db.blocks.end_len_outcome[len];
		let mut r = Rng::keyed(seed, len as u64, 0xE0D);
		let base = gen::build_end_block(&db, len, &mut r);
		for bi in 0..len {
			for v in 0..=255u8 {
				let mut blk = base.clone();
				blk[bi] = v;
				sink.count(fnv(&blk) ^ ((len as u64) << 32), true);
				check_end_block(&db, &blk, ngroups, &format!("end,len:{},sweep", len), &sink, seed);
			}
		}
	}
	// (4) the same blocks through .slpp (start.raw / end.raw): the reconstructed values are the same
	for (k, len) in nominal.iter().enumerate() {
		let mut r = Rng::keyed(seed, k as u64, 0x51BB);
		let occ: Vec<String> = vec!["single".into(), "none".into(), "ic".into(), "none".into()];
		let ver = match db.blocks.start_groups.iter().take(db.blocks.start_len_outcome[*len] as usize).last() {
			Some(g) => [g.since[0], g.since[1], 0],
			None => [0, 1, 0],
		};
		let start = gen::build_start_block(&db, ver, &occ, *len, &mut r);
		let l = db.for_version(ver[0], ver[1]);
		let end = gen::build_end_block(&db, l.end_len, &mut r);
		let bytes = file_with_blocks(&start, Some(&end), end.len());
		sink.count(fnv(&bytes), true);
		if let Outcome::Ok(g) = real::read_slp(&bytes, false, false) {
			let js = render(&g.start);
			let je = g.end.as_ref().map(render);
			match real::write_slpp(g, Comp::None) {
				Outcome::Ok(arch) => match real::read_slpp_frag(&arch, false, if k % 2 == 0 { Frag::Fixed(1) } else { Frag::Random(k as u64) }) {
					Outcome::Ok(g2) => {
						if render(&g2.start) != js || g2.end.as_ref().map(render) != je || g2.start.bytes.0 != start {
							sink.report(&viol("blocks_through_slpp", &format!("start,len:{}", len), "mismatch", "start/end differ after the trip through start.raw / end.raw".into()), &|| json!({"start_block_hex": crate::util::hex(&start)}));
						}
					}
					o => sink.report(&viol("blocks_through_slpp", &format!("start,len:{}", len), o.kind(), o.detail()), &|| json!({"start_block_hex": crate::util::hex(&start)})),
				},
				o => sink.report(&viol("blocks_through_slpp", &format!("start,len:{}", len), o.kind(), o.detail()), &|| json!({"start_block_hex": crate::util::hex(&start)})),
			}
		}
	}
	sink.summary(json!({"nominal_start_lengths": nominal, "swept_fields": work.len()}));
}

/// Length class of a Game Start block for violation signatures: the number of groups it holds.
fn len_class(db: &LayoutDb, len: usize) -> String {
	match db.blocks.start_len_outcome.get(len) {
		Some(n) if *n >= 0 => format!("groups={}", n),
		_ => "invalid".into(),
	}
}
