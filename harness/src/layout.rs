//! The byte layout as evaluated by TLC from spec/SlpLayout.tla.
//! The harness holds no offsets, sizes or gates of its own.

use serde::Deserialize;
use std::collections::BTreeMap;

use crate::util::parse_tlc_line;

#[derive(Deserialize, Debug, Clone)]
pub struct FieldL {
	pub n: String,
	pub t: String,
	pub off: usize,
	pub w: usize,
	pub since: [u8; 2],
}

#[derive(Deserialize, Debug, Clone)]
pub struct StructL {
	pub code: u8,
	pub exists: bool,
	pub size: usize,
	pub hdr: usize,
	pub fields: Vec<FieldL>,
}

#[derive(Deserialize, Debug, Clone)]
pub struct Layout {
	pub ver: [u8; 2],
	pub pre: StructL,
	pub post: StructL,
	pub start: StructL,
	pub end: StructL,
	pub item: StructL,
	pub start_len: usize,
	pub end_len: usize,
	pub start_groups: usize,
	pub end_groups: usize,
	pub gecko: bool,
}

impl Layout {
	pub fn st(&self, s: &str) -> &StructL {
		match s {
			"pre" => &self.pre,
			"post" => &self.post,
			"start" | "fs" => &self.start,
			"end" | "fe" => &self.end,
			"item" => &self.item,
			_ => panic!("no struct {}", s),
		}
	}
}

#[derive(Deserialize, Debug, Clone)]
pub struct GroupL {
	pub name: String,
	pub since: [u8; 2],
	pub size: usize,
	pub start: usize,
}

#[derive(Deserialize, Debug, Clone)]
pub struct SField {
	pub n: String,
	pub k: String,
	pub g: String,
	pub off: usize,
	pub w: usize,
}

#[derive(Deserialize, Debug, Clone)]
pub struct TableField {
	pub n: String,
	pub t: String,
	pub since: [u8; 2],
}

#[derive(Deserialize, Debug, Clone)]
pub struct Blocks {
	pub start_groups: Vec<GroupL>,
	pub end_groups: Vec<GroupL>,
	pub start_global: Vec<SField>,
	pub start_player: Vec<Vec<SField>>,
	pub end_fields: Vec<SField>,
	/// index = block length; value = number of groups present, -1 = error
	pub start_len_outcome: Vec<i64>,
	pub end_len_outcome: Vec<i64>,
	pub player_types: Vec<String>,
	pub ucf_names: Vec<String>,
	pub languages: Vec<String>,
	pub end_methods: BTreeMap<String, String>,
	pub ports: Vec<String>,
	pub ice_climbers: u8,
	pub tables: BTreeMap<String, Vec<TableField>>,
	pub max_supported: [u8; 3],
	pub peppi_min: [u8; 3],
	pub peppi_current: [u8; 3],
}

pub struct LayoutDb {
	/// class representatives, ascending by (major, minor)
	pub classes: Vec<Layout>,
	pub blocks: Blocks,
}

impl LayoutDb {
	pub fn load(path: &str) -> LayoutDb {
		let text = std::fs::read_to_string(path).unwrap_or_else(|e| panic!("layout {}: {}", path, e));
		let mut classes = vec![];
		let mut blocks = None;
		for line in text.lines() {
			if let Some((tag, v)) = parse_tlc_line(line) {
				match tag.as_str() {
					"LAYOUT" => classes.push(serde_json::from_value::<Layout>(v).expect("LAYOUT json")),
					"BLOCKS" => blocks = Some(serde_json::from_value::<Blocks>(v).expect("BLOCKS json")),
					_ => {}
				}
			}
		}
		classes.sort_by_key(|l| (l.ver[0], l.ver[1]));
		assert!(!classes.is_empty(), "no LAYOUT lines in {}", path);
		LayoutDb {
			classes,
			blocks: blocks.expect("no BLOCKS line"),
		}
	}

	/// Layout of the class the version belongs to (TLC has checked that every version has
	/// the layout of the greatest class boundary not above it).
	pub fn for_version(&self, maj: u8, min: u8) -> &Layout {
		let mut best = &self.classes[0];
		for l in &self.classes {
			if (l.ver[0], l.ver[1]) <= (maj, min) {
				best = l;
			}
		}
		best
	}

	pub fn class_boundaries(&self) -> Vec<(u8, u8)> {
		self.classes.iter().map(|l| (l.ver[0], l.ver[1])).collect()
	}
}

impl LayoutDb {
	/// Framing regime of a version, derived from which events exist in its layout.
	pub fn regime_of(&self, maj: u8, min: u8) -> &'static str {
		let l = self.for_version(maj, min);
		if l.end.exists {
			"C"
		} else if l.start.exists {
			"B"
		} else {
			"A"
		}
	}

	/// All (major, minor) from 0.1 up to the writers' ceiling that belong to a regime.
	pub fn versions_of_regime(&self, reg: &str) -> Vec<(u8, u8)> {
		let max = self.blocks.max_supported;
		let mut v = vec![];
		for maj in 0..=max[0] {
			for min in 0..=255u8 {
				if (maj, min) == (0, 0) || (maj, min) > (max[0], max[1]) {
					continue;
				}
				if self.regime_of(maj, min) == reg {
					v.push((maj, min));
				}
			}
		}
		v
	}
}
