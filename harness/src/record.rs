//! impl -> spec: records executions of the real parser as ndjson traces for TLC (spec/trace/Trace_Parser.tla).

use std::io::Write;

use serde_json::json;

use peppi::io::slippi;

use crate::cols;
use crate::layout::LayoutDb;
use crate::real;
use crate::stream::{Frag, FragReader};
use crate::util::{guard, Outcome};
use crate::Args;

fn be_i32(b: &[u8], o: usize) -> i64 {
	i32::from_be_bytes([b[o], b[o + 1], b[o + 2], b[o + 3]]) as i64
}

fn scalars(c: &cols::Cols, chars: &[(String, usize, usize)], version_ports: &[String]) -> serde_json::Value {
	let _ = version_ports;
	let len_of = |k: &str| c.leaves.get(k).map_or(0, |x| x.vals.len());
	let lens: Vec<[usize; 3]> = chars
		.iter()
		.map(|(path, _, _)| {
			let pre = len_of(&format!("{}.pre.random_seed", path));
			let post = len_of(&format!("{}.post.character", path));
			let valid = c.present.get(path).map_or(0, |v| v.iter().filter(|b| **b).count());
			[pre, post, valid]
		})
		.collect();
	json!({
		"rows": len_of("id"),
		"lens": lens,
		"nstart": len_of("start.random_seed"),
		"nend": c.item_off.as_ref().map_or(0, |o| o.len() - 1),
		"nitems": len_of("item.type"),
		"noff": c.item_off.as_ref().map_or(1, |o| o.len()),
	})
}

/// Records the incremental parse of one replay file.  Returns the number of records written.
pub fn record_file(db: &LayoutDb, bytes: &[u8], out: &mut dyn Write, max_events: usize) -> Result<usize, String> {
	let mut r = FragReader::new(bytes, Frag::Whole);
	let raw_len = guard(|| slippi::de::parse_header(&mut r, None)).ok().ok_or("header")? as usize;
	let mut st = guard(|| slippi::de::parse_start(&mut r, None)).ok().ok_or("start")?;
	let start = peppi::game::Game::start(&st).clone();
	let ver = start.slippi.version;
	let l = db.for_version(ver.0, ver.1);
	let reg = db.regime_of(ver.0, ver.1);
	let mut occ = vec!["none".to_string(); 4];
	for p in &start.players {
		occ[p.port as usize] = if p.character == db.blocks.ice_climbers { "ic".into() } else { "single".into() };
	}
	// characters in canonical order
	let mut chars: Vec<(String, usize, usize)> = vec![];
	for (p, o) in occ.iter().enumerate() {
		if o != "none" {
			chars.push((format!("ports.{}.leader", db.blocks.ports[p]), p, 0));
		}
		if o == "ic" {
			chars.push((format!("ports.{}.follower", db.blocks.ports[p]), p, 1));
		}
	}
	// payload table (independent walk)
	let mut sizes = [None::<usize>; 256];
	{
		let tl = bytes[16] as usize;
		for i in 0..(tl - 1) / 3 {
			let o = 17 + 3 * i;
			sizes[bytes[o] as usize] = Some(u16::from_be_bytes([bytes[o + 1], bytes[o + 2]]) as usize);
		}
	}
	writeln!(out, "{}", json!({"k": "reset", "reg": reg, "occ": occ, "version": [ver.0, ver.1, ver.2]})).unwrap();
	let mut n = 1;
	let raw_end = 15 + raw_len;
	let mut ended = false;
	while r.position() < raw_end && n <= max_events {
		let pos = r.position();
		let code = bytes[pos];
		let size = match sizes[code as usize] {
			Some(s) => s,
			None => return Err(format!("undeclared event {:#x} at {}", code, pos)),
		};
		let b = &bytes[pos..pos + 1 + size];
		let mut ev = json!({"k": "unk", "id": 0, "p": 0, "f": 0, "x": code});
		if code == l.pre.code || code == l.post.code {
			ev = json!({"k": if code == l.pre.code { "pre" } else { "post" }, "id": be_i32(b, 1), "p": b[5], "f": (b[6] != 0) as u8, "x": 0});
		} else if code == l.start.code || code == l.end.code || code == l.item.code {
			let k = if code == l.start.code { "fs" } else if code == l.end.code { "fe" } else { "item" };
			ev = json!({"k": k, "id": be_i32(b, 1), "p": 0, "f": 0, "x": 0});
		} else if code == 0x39 {
			ev = json!({"k": "ge", "id": 0, "p": 0, "f": 0, "x": 0});
		} else if code == 0x10 {
			let actual = u16::from_be_bytes([b[513], b[514]]) as usize;
			ev = json!({"k": "split", "id": if size == 516 { 0 } else { 1 }, "p": b[515], "f": (b[516] != 0) as u8, "x": actual});
		}
		let res = guard(|| slippi::de::parse_event(&mut r, &mut st, None));
		let c = cols::from_mutable(st.frames());
		let mut rec = scalars(&c, &chars, &db.blocks.ports);
		for (k, v) in ev.as_object().unwrap() {
			rec[k] = v.clone();
		}
		rec["res"] = json!(if res.is_ok() { "ok" } else { "err" });
		rec["gend"] = json!(peppi::game::Game::end(&st).is_some());
		let g = peppi::game::Game::gecko_codes(&st);
		rec["ngecko"] = json!(g.as_ref().map_or(0, |g| g.bytes.len() / 512));
		rec["gactual"] = json!(g.as_ref().map_or(0, |g| g.actual_size));
		writeln!(out, "{}", rec).unwrap();
		n += 1;
		match res {
			Outcome::Ok(c) if c == 0x39 => {
				ended = true;
				break;
			}
			Outcome::Ok(_) => {}
			_ => return Ok(n),
		}
	}
	// the one-shot reader's final state for the same bytes (only for complete traces)
	if ended || r.position() >= raw_end {
		if let Outcome::Ok(g) = real::read_slp(bytes, false, false) {
			let c = cols::from_immutable(&g.frames);
			let mut rec = scalars(&c, &chars, &db.blocks.ports);
			rec["k"] = json!("final");
			rec["id"] = json!(0);
			rec["p"] = json!(0);
			rec["f"] = json!(0);
			rec["x"] = json!(0);
			rec["res"] = json!("ok");
			rec["gend"] = json!(g.end.is_some());
			rec["ngecko"] = json!(g.gecko_codes.as_ref().map_or(0, |g| g.bytes.len() / 512));
			rec["gactual"] = json!(g.gecko_codes.as_ref().map_or(0, |g| g.actual_size));
			writeln!(out, "{}", rec).unwrap();
			n += 1;
		}
	}
	Ok(n)
}

pub fn cmd_record(a: &Args) {
	let db = LayoutDb::load(a.req("layout"));
	let bytes = std::fs::read(a.req("file")).unwrap();
	let mut out = std::io::BufWriter::new(std::fs::File::create(a.req("out")).unwrap());
	match record_file(&db, &bytes, &mut out, a.num("max-events", u64::MAX) as usize) {
		Ok(n) => println!("{}", json!({"t": "recorded", "records": n})),
		Err(e) => {
			println!("{}", json!({"t": "recorded", "records": 0, "error": e}));
		}
	}
}
