//! Thin, panic-guarded wrappers around the real peppi API.

use std::io::Cursor;

use peppi::game::immutable::Game;
use peppi::io::{peppi as ppi, slippi};

use crate::util::{guard, Outcome};

pub fn read_slp(bytes: &[u8], skip: bool, hash: bool) -> Outcome<Game> {
	let opts = slippi::de::Opts {
		skip_frames: skip,
		compute_hash: hash,
		debug: None,
		..Default::default()
	};
	guard(|| slippi::read(Cursor::new(bytes), Some(&opts)))
}

pub fn read_slp_noopts(bytes: &[u8]) -> Outcome<Game> {
	guard(|| slippi::read(Cursor::new(bytes), None))
}

pub fn write_slp(game: &Game) -> Outcome<Vec<u8>> {
	guard(|| {
		let mut out = vec![];
		slippi::write(&mut out, game).map(|_| out)
	})
}

#[derive(Clone, Copy, Debug, PartialEq, Eq)]
pub enum Comp {
	None,
	Lz4,
	Zstd,
}

impl Comp {
	pub fn all() -> [Comp; 3] {
		[Comp::None, Comp::Lz4, Comp::Zstd]
	}
	pub fn name(&self) -> &'static str {
		match self {
			Comp::None => "none",
			Comp::Lz4 => "lz4",
			Comp::Zstd => "zstd",
		}
	}
}

pub fn write_slpp(game: Game, comp: Comp) -> Outcome<Vec<u8>> {
	let opts = ppi::ser::Opts {
		compression: match comp {
			Comp::None => None,
			Comp::Lz4 => Some(arrow2::io::ipc::write::Compression::LZ4),
			Comp::Zstd => Some(arrow2::io::ipc::write::Compression::ZSTD),
		},
		..Default::default()
	};
	guard(|| {
		let mut out = vec![];
		ppi::write(&mut out, game, Some(&opts))
			.map(|_| out)
			.map_err(|e| format!("{}", e))
	})
}

pub fn write_slpp_noopts(game: Game) -> Outcome<Vec<u8>> {
	guard(|| {
		let mut out = vec![];
		ppi::write(&mut out, game, None).map(|_| out).map_err(|e| format!("{}", e))
	})
}

pub fn read_slpp(bytes: &[u8], skip: bool) -> Outcome<Game> {
	let opts = ppi::de::Opts { skip_frames: skip, ..Default::default() };
	guard(|| ppi::read(bytes, Some(&opts)))
}

/// Reads a .slpp through a stream that fragments reads (the archive as it arrives from a pipe or socket).
pub fn read_slpp_frag(bytes: &[u8], skip: bool, frag: crate::stream::Frag) -> Outcome<Game> {
	let opts = ppi::de::Opts { skip_frames: skip, ..Default::default() };
	let r = crate::stream::FragReader::new(bytes, frag);
	guard(|| ppi::read(r, Some(&opts)))
}

/// A sink that fails (a full disk, a closed pipe) once `limit` bytes have been written.
pub struct FailWriter {
	pub limit: usize,
	pub written: usize,
}

impl std::io::Write for FailWriter {
	fn write(&mut self, buf: &[u8]) -> std::io::Result<usize> {
		if self.written >= self.limit {
			return Err(std::io::Error::new(std::io::ErrorKind::Other, "sink full"));
		}
		let n = buf.len().min(self.limit - self.written).max(1).min(buf.len());
		self.written += n;
		Ok(n)
	}
	fn flush(&mut self) -> std::io::Result<()> {
		Ok(())
	}
}

/// A write into a failing sink; the outcome is not examined (history for the writes that follow it).
pub fn fail_write_slp(game: &Game, limit: usize) {
	let _ = guard(|| slippi::write(&mut FailWriter { limit, written: 0 }, game));
}

pub fn fail_write_slpp(game: Game, comp: Comp, limit: usize) {
	let _ = fail_write_slpp_outcome(game, comp, limit);
}

/// As `fail_write_slpp`, returning what the writer answered and how many bytes the sink took.
pub fn fail_write_slpp_outcome(game: Game, comp: Comp, limit: usize) -> Outcome<usize> {
	let opts = ppi::ser::Opts {
		compression: match comp {
			Comp::None => None,
			Comp::Lz4 => Some(arrow2::io::ipc::write::Compression::LZ4),
			Comp::Zstd => Some(arrow2::io::ipc::write::Compression::ZSTD),
		},
		..Default::default()
	};
	let mut w = FailWriter { limit, written: 0 };
	let r = guard(|| ppi::write(&mut w, game, Some(&opts)).map_err(|e| format!("{}", e)));
	match r {
		Outcome::Ok(()) => Outcome::Ok(w.written),
		Outcome::Err(e) => Outcome::Err(e),
		Outcome::Panic(p) => Outcome::Panic(p),
	}
}

#[allow(dead_code)]
fn fail_write_slpp_old(game: Game, comp: Comp, limit: usize) {
	let opts = ppi::ser::Opts {
		compression: match comp {
			Comp::None => None,
			Comp::Lz4 => Some(arrow2::io::ipc::write::Compression::LZ4),
			Comp::Zstd => Some(arrow2::io::ipc::write::Compression::ZSTD),
		},
		..Default::default()
	};
	let _ = guard(|| ppi::write(FailWriter { limit, written: 0 }, game, Some(&opts)).map_err(|e| format!("{}", e)));
}

/// A sink that accepts at most `chunk` bytes per call (a pipe, a socket): what arrives must not depend on it.
pub struct ShortWriter {
	pub chunk: usize,
	pub data: Vec<u8>,
	pub calls: usize,
}

impl std::io::Write for ShortWriter {
	fn write(&mut self, buf: &[u8]) -> std::io::Result<usize> {
		self.calls += 1;
		// now and then the call is interrupted before anything is accepted
		if self.calls % 11 == 5 {
			return Err(std::io::Error::new(std::io::ErrorKind::Interrupted, "interrupted"));
		}
		let n = buf.len().min(self.chunk.max(1));
		self.data.extend_from_slice(&buf[..n]);
		Ok(n)
	}
	fn flush(&mut self) -> std::io::Result<()> {
		Ok(())
	}
}

pub fn write_slp_short(game: &Game, chunk: usize) -> Outcome<Vec<u8>> {
	guard(|| {
		let mut w = ShortWriter { chunk, data: vec![], calls: 0 };
		slippi::write(&mut w, game).map(|_| w.data)
	})
}

pub fn write_slpp_short(game: Game, comp: Comp, chunk: usize) -> Outcome<Vec<u8>> {
	let opts = ppi::ser::Opts {
		compression: match comp {
			Comp::None => None,
			Comp::Lz4 => Some(arrow2::io::ipc::write::Compression::LZ4),
			Comp::Zstd => Some(arrow2::io::ipc::write::Compression::ZSTD),
		},
		..Default::default()
	};
	guard(|| {
		let mut w = ShortWriter { chunk, data: vec![], calls: 0 };
		ppi::write(&mut w, game, Some(&opts)).map(|_| w.data).map_err(|e| format!("{}", e))
	})
}
