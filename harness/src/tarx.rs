//! A minimal, independent tar walker and writer (ustar/gnu headers, regular files only).

#[derive(Debug, Clone)]
pub struct Entry {
	pub name: String,
	pub header_off: usize,
	pub data_off: usize,
	pub size: usize,
	/// one past the padding that follows the data
	pub end_off: usize,
	pub data: Vec<u8>,
}

fn octal(b: &[u8]) -> Option<usize> {
	let s: String = b.iter().take_while(|c| **c != 0 && **c != b' ').map(|c| *c as char).collect();
	let s = s.trim();
	if s.is_empty() {
		return Some(0);
	}
	usize::from_str_radix(s, 8).ok()
}

/// Walks an archive; stops at the first all-zero block or at the end of the bytes.
pub fn walk(arch: &[u8]) -> Result<Vec<Entry>, String> {
	let mut out = vec![];
	let mut off = 0usize;
	while off + 512 <= arch.len() {
		let h = &arch[off..off + 512];
		if h.iter().all(|b| *b == 0) {
			break;
		}
		let name: String = h[..100].iter().take_while(|b| **b != 0).map(|b| *b as char).collect();
		let size = octal(&h[124..136]).ok_or_else(|| format!("bad size field at {}", off))?;
		// checksum: sum of header bytes with the checksum field taken as spaces
		let want = octal(&h[148..156]).ok_or_else(|| format!("bad checksum field at {}", off))?;
		let mut sum = 0usize;
		for (i, b) in h.iter().enumerate() {
			sum += if (148..156).contains(&i) { 32 } else { *b as usize };
		}
		if sum != want {
			return Err(format!("header checksum mismatch for {:?} at {}", name, off));
		}
		let data_off = off + 512;
		if data_off + size > arch.len() {
			return Err(format!("entry {:?} extends past the end of the archive", name));
		}
		let end_off = data_off + (size + 511) / 512 * 512;
		out.push(Entry {
			name,
			header_off: off,
			data_off,
			size,
			end_off,
			data: arch[data_off..data_off + size].to_vec(),
		});
		off = end_off;
	}
	Ok(out)
}

fn put_header(out: &mut Vec<u8>, name: &[u8], size: usize, typeflag: u8) {
	let mut h = [0u8; 512];
	h[..name.len().min(100)].copy_from_slice(&name[..name.len().min(100)]);
	h[100..108].copy_from_slice(b"0000644\0");
	h[108..116].copy_from_slice(b"0000000\0");
	h[116..124].copy_from_slice(b"0000000\0");
	let sz = format!("{:011o}\0", size);
	h[124..136].copy_from_slice(sz.as_bytes());
	h[136..148].copy_from_slice(b"00000000000\0");
	h[156] = typeflag;
	h[257..265].copy_from_slice(b"ustar  \0");
	for b in h[148..156].iter_mut() {
		*b = b' ';
	}
	let sum: usize = h.iter().map(|b| *b as usize).sum();
	let cs = format!("{:06o}\0 ", sum);
	h[148..156].copy_from_slice(cs.as_bytes());
	out.extend_from_slice(&h);
}

fn put_data(out: &mut Vec<u8>, data: &[u8]) {
	out.extend_from_slice(data);
	let pad = (512 - data.len() % 512) % 512;
	out.extend(std::iter::repeat(0u8).take(pad));
}

/// Writes an archive of regular files (GNU magic, mode 0644), terminated by two zero blocks.  A name longer
/// than the 100-byte header field is carried the way tar tools carry it: a GNU long-name record (names of even
/// length) or a PAX extended header with a `path` record (odd length), followed by the member whose header
/// holds the first 100 bytes of the name.
pub fn write(entries: &[(String, Vec<u8>)]) -> Vec<u8> {
	let mut out = vec![];
	for (name, data) in entries {
		// a name of the form "<kind>!<name>" is a member that is not a regular file: dir, symlink, hardlink, fifo
		if let Some((kind, rest)) = name.split_once('!') {
			if kind == "rawname" {
				// a regular file whose name bytes are given in hex (names that are not UTF-8, "./", ...)
				let nb = crate::util::unhex(rest);
				put_header(&mut out, &nb, data.len(), b'0');
				put_data(&mut out, data);
				continue;
			}
			let flag = match kind {
				"dir" => b'5',
				"symlink" => b'2',
				"hardlink" => b'1',
				"fifo" => b'6',
				_ => b'0',
			};
			let start = out.len();
			put_header(&mut out, rest.as_bytes(), 0, flag);
			if flag == b'2' || flag == b'1' {
				// link name field, then the checksum again
				let target = b"start.raw";
				out[start + 157..start + 157 + target.len()].copy_from_slice(target);
				for b in out[start + 148..start + 156].iter_mut() {
					*b = b' ';
				}
				let sum: usize = out[start..start + 512].iter().map(|b| *b as usize).sum();
				let cs = format!("{:06o}\0 ", sum);
				out[start + 148..start + 156].copy_from_slice(cs.as_bytes());
			}
			continue;
		}
		let nb = name.as_bytes();
		if nb.len() > 100 {
			if nb.len() % 2 == 0 {
				let mut d = nb.to_vec();
				d.push(0);
				put_header(&mut out, b"././@LongLink", d.len(), b'L');
				put_data(&mut out, &d);
			} else {
				// "<len> path=<name>\n", len counting itself
				let body = format!(" path={}\n", name);
				let mut len = body.len() + 1;
				while len != body.len() + len.to_string().len() {
					len = body.len() + len.to_string().len();
				}
				let rec = format!("{}{}", len, body);
				put_header(&mut out, b"PaxHeaders.0/member", rec.len(), b'x');
				put_data(&mut out, rec.as_bytes());
			}
		}
		put_header(&mut out, nb, data.len(), b'0');
		put_data(&mut out, data);
	}
	out.extend(std::iter::repeat(0u8).take(1024));
	out
}
