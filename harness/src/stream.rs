//! Byte-stream environments: scheduled short reads, a split point, injected I/O faults.

use std::io::{self, Read, Seek, SeekFrom};

/// How the stream fragments reads.
#[derive(Clone, Debug)]
pub enum Frag {
	/// every read returns everything asked for
	Whole,
	/// the i-th read call returns at most chunks[i mod len] bytes (a TLC-exported schedule)
	Sched(Vec<usize>),
	/// every read returns at most n bytes
	Fixed(usize),
	/// any read crossing byte offset k stops at k (a two-piece split of the stream)
	SplitAt(usize),
	/// pseudo-random short reads
	Random(u64),
	/// pseudo-random short reads; now and then a call is interrupted before any byte is transferred (EINTR)
	RandomIntr(u64),
}

/// An in-memory stream with scheduled short reads and an optional injected fault.
pub struct FragReader<'a> {
	data: &'a [u8],
	pos: usize,
	frag: Frag,
	calls: usize,
	/// fail the k-th read call (0-based) with an I/O error
	pub fail_at: Option<usize>,
	/// a stream that can only move forward (a pipe or a decompressor behind an adapter): any seek other than
	/// `Current(n >= 0)` fails
	pub forward_only: bool,
	pub seeks: usize,
	rng: crate::util::Rng,
}

impl<'a> FragReader<'a> {
	pub fn new(data: &'a [u8], frag: Frag) -> Self {
		let seed = match &frag {
			Frag::Random(s) | Frag::RandomIntr(s) => *s,
			_ => 0,
		};
		FragReader {
			data,
			pos: 0,
			frag,
			calls: 0,
			fail_at: None,
			forward_only: false,
			seeks: 0,
			rng: crate::util::Rng::new(seed),
		}
	}
	pub fn position(&self) -> usize {
		self.pos
	}
	pub fn set_position(&mut self, p: usize) {
		self.pos = p;
	}
	pub fn calls(&self) -> usize {
		self.calls
	}
}

impl<'a> Read for FragReader<'a> {
	fn read(&mut self, buf: &mut [u8]) -> io::Result<usize> {
		let call = self.calls;
		self.calls += 1;
		if self.fail_at == Some(call) {
			// (the kind of the injected error rotates with the call: whatever it is, except `Interrupted`, it must surface)
			let kind = [io::ErrorKind::Other, io::ErrorKind::WouldBlock, io::ErrorKind::TimedOut, io::ErrorKind::BrokenPipe, io::ErrorKind::ConnectionReset, io::ErrorKind::InvalidData, io::ErrorKind::PermissionDenied][call % 7];
			return Err(io::Error::new(kind, "injected fault"));
		}
		if self.pos >= self.data.len() || buf.is_empty() {
			return Ok(0);
		}
		let avail = self.data.len() - self.pos;
		let mut n = buf.len().min(avail);
		match &self.frag {
			Frag::Whole => {}
			Frag::Sched(c) => {
				if !c.is_empty() {
					n = n.min(c[call % c.len()].max(1));
				}
			}
			Frag::Fixed(k) => n = n.min((*k).max(1)),
			Frag::SplitAt(k) => {
				if self.pos < *k && self.pos + n > *k {
					n = *k - self.pos;
				}
			}
			Frag::Random(_) => {
				let lim = 1 + self.rng.below(9) as usize;
				n = n.min(lim);
			}
			Frag::RandomIntr(_) => {
				// not an error of the stream: the caller is expected to call again (std's read_exact does)
				if self.rng.below(8) == 0 {
					return Err(io::Error::new(io::ErrorKind::Interrupted, "interrupted"));
				}
				let lim = 1 + self.rng.below(9) as usize;
				n = n.min(lim);
			}
		}
		buf[..n].copy_from_slice(&self.data[self.pos..self.pos + n]);
		// poison the rest of the caller's buffer: a reader that trusts more than `n` bytes is wrong
		let lim = buf.len().min(n + 64);
		for b in buf[n..lim].iter_mut() {
			*b = 0xA5;
		}
		self.pos += n;
		Ok(n)
	}
}

impl<'a> Seek for FragReader<'a> {
	fn seek(&mut self, pos: SeekFrom) -> io::Result<u64> {
		self.seeks += 1;
		if self.forward_only && !matches!(pos, SeekFrom::Current(d) if d >= 0) {
			return Err(io::Error::new(io::ErrorKind::Unsupported, "this stream can only move forward"));
		}
		let new = match pos {
			SeekFrom::Start(p) => p as i128,
			SeekFrom::Current(d) => self.pos as i128 + d as i128,
			SeekFrom::End(d) => self.data.len() as i128 + d as i128,
		};
		if new < 0 {
			return Err(io::Error::new(io::ErrorKind::InvalidInput, "seek before start"));
		}
		self.pos = new as usize;
		Ok(self.pos as u64)
	}
}
