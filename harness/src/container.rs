//! C16 (metadata trees) and C18 (.slpp archive structure).

use serde::Deserialize;
use serde_json::{json, Value};

use crate::checks::viol;
use crate::fields::simple_beh_gecko;
use crate::gen::{self, GenOpts};
use crate::layout::LayoutDb;
use crate::real::{self, Comp};
use crate::tarx;
use crate::util::{first_diff, fnv, Outcome, Rng};
use crate::{Args, Sink};

// ---------------------------------------------------------------------------------------------
// C16
// ---------------------------------------------------------------------------------------------

/// An ordered metadata tree: (key, value) pairs.
#[derive(Debug, Clone, PartialEq)]
pub enum Node {
	S(String),
	I(i32),
	M(Vec<(String, Node)>),
}

fn str_class(c: &str, salt: usize) -> String {
	match c {
		"" => String::new(),
		"a" => ["a", "Fox", "2020-08-01T19:42:48Z", " "][salt % 4].to_string(),
		"e2" => ["\u{e9}", "na\u{ef}ve \u{df}"][salt % 2].to_string(),
		"k3" => ["\u{30d7}", "\u{30d7}layer \u{20ac}", "\u{1F600} four-byte", "\u{feff}starts with U+FEFF", "\u{fffd}\u{feff}"][salt % 5].to_string(),
		"L255" => {
			// exactly 255 bytes of UTF-8
			let mut s = "x".repeat(252);
			s.push('\u{20ac}');
			s
		}
		other => other.to_string(),
	}
}

fn key_name(k: &str, salt: usize) -> String {
	// model keys are short names; a few of them are concretised as unusual keys
	// (among them the keys Slippi's own metadata uses: a reader has no business interpreting them)
	match (k, salt % 7) {
		("b", 1) => String::new(), // the empty key
		("a", 2) => "\u{30ad}\u{30fc}".to_string(),
		("z", 3) => "k".repeat(255),
		("a", 4) => "lastFrame".to_string(),
		("z", 4) => "characters".to_string(),
		("b", 5) => "players".to_string(),
		("a", 6) => "\u{feff}a".to_string(), // a key that starts with U+FEFF
		("z", 6) => "playedOn".to_string(),
		("b", 6) => "$serde_json::private::RawValue".to_string(), // keys some serde_json features treat as magic
		("b", 3) => "$serde_json::private::Number".to_string(),
		_ => k.to_string(),
	}
}

fn tree_from_model(v: &Value, salt: usize) -> Vec<(String, Node)> {
	let mut out = vec![];
	for (n, pair) in v.as_array().unwrap().iter().enumerate() {
		let k = key_name(pair[0].as_str().unwrap(), salt);
		let val = &pair[1];
		let node = match val[0].as_str().unwrap() {
			"s" => Node::S(str_class(val[1].as_str().unwrap(), salt + n)),
			"i" => Node::I(val[1].as_i64().unwrap() as i32),
			"m" => Node::M(tree_from_model(&val[1], salt + 1)),
			t => panic!("node type {}", t),
		};
		out.push((k, node));
	}
	out
}

fn put_len_str(out: &mut Vec<u8>, s: &str) {
	out.push(b'U');
	out.push(s.len() as u8);
	out.extend_from_slice(s.as_bytes());
}

/// UBJSON body of a map: its content and its closing brace.
pub fn ubjson_body(m: &[(String, Node)]) -> Vec<u8> {
	let mut out = vec![];
	for (k, v) in m {
		put_len_str(&mut out, k);
		match v {
			Node::S(s) => {
				out.push(b'S');
				put_len_str(&mut out, s);
			}
			Node::I(i) => {
				out.push(b'l');
				out.extend_from_slice(&i.to_be_bytes());
			}
			Node::M(sub) => {
				out.push(b'{');
				out.extend_from_slice(&ubjson_body(sub));
			}
		}
	}
	out.push(b'}');
	out
}

/// Compares a serde_json map (in ITERATION order) with the ordered tree.
fn same_tree(m: &serde_json::Map<String, Value>, t: &[(String, Node)], path: &str) -> Option<String> {
	if m.len() != t.len() {
		return Some(format!("{}: {} keys, expected {}", path, m.len(), t.len()));
	}
	for ((k, v), (tk, tv)) in m.iter().zip(t.iter()) {
		if k != tk {
			return Some(format!("{}: key order / key differs: got {:?}, expected {:?}", path, k, tk));
		}
		match (v, tv) {
			(Value::String(s), Node::S(ts)) => {
				if s != ts {
					return Some(format!("{}.{}: string differs", path, k));
				}
			}
			(Value::Number(n), Node::I(i)) => {
				if n.as_i64() != Some(*i as i64) {
					return Some(format!("{}.{}: {} expected {}", path, k, n, i));
				}
			}
			(Value::Object(o), Node::M(sub)) => {
				if let Some(d) = same_tree(o, sub, &format!("{}.{}", path, k)) {
					return Some(d);
				}
			}
			_ => return Some(format!("{}.{}: value type differs", path, k)),
		}
	}
	None
}

fn random_tree(r: &mut Rng, depth: usize) -> Vec<(String, Node)> {
	let n = r.below(5) as usize;
	let mut out: Vec<(String, Node)> = vec![];
	for j in 0..n {
		let klen = r.below(12) as usize;
		let mut k: String = (0..klen).map(|_| *r.pick(&['a', 'Z', '0', '_', '\u{e9}', '\u{30d7}', ' ', '"', '\\'])).collect();
		if r.chance(1, 4) {
			k = r.pick(&["lastFrame", "startAt", "playedOn", "players", "characters", "names", "netplay", "code", "consoleNick", "\u{feff}", "$serde_json::private::RawValue", "$serde_json::private::Number"]).to_string();
		}
		while k.len() > 255 || out.iter().any(|(x, _)| *x == k) {
			k = format!("k{}_{}", j, r.below(1000));
		}
		let v = match r.below(if depth > 0 { 4 } else { 3 }) {
			0 => Node::I(*r.pick(&[i32::MIN, -1, 0, 1, i32::MAX, 5209, -123])),
			1 | 2 => {
				let len = *r.pick(&[0usize, 1, 5, 40, 254, 255]);
				let mut s = String::new();
				while s.len() < len {
					let c = *r.pick(&['a', '\u{e9}', '\u{30d7}', '\u{1F600}', '"', '\\', '\n', '\u{7f}']);
					if s.len() + c.len_utf8() <= len {
						s.push(c);
					} else {
						s.push('x');
					}
				}
				Node::S(s)
			}
			_ => Node::M(random_tree(r, depth - 1)),
		};
		out.push((k, v));
	}
	out
}

fn check_tree(db: &LayoutDb, tree: &[(String, Node)], idx: usize, seed: u64, sink: &Sink, nontrivial: bool) {
	check_tree_opt(db, tree, idx, seed, sink, nontrivial, false)
}

/// `may_reject`: the tree is nested beyond what the formats are required to hold: the reader may refuse it, but
/// if it accepts it, everything the property says about an accepted tree must hold.
fn check_tree_opt(db: &LayoutDb, tree: &[(String, Node)], idx: usize, seed: u64, sink: &Sink, nontrivial: bool, may_reject: bool) {
	let reg = ["C", "A", "B"][idx % 3];
	let vs = db.versions_of_regime(reg);
	let (a, b) = vs[(idx * 13 + seed as usize) % vs.len()];
	let ver = [a, b, 0];
	let mut beh = simple_beh_gecko(reg, &["single", "none", "none", "none"], idx % 2, 0, 0);
	if idx % 4 == 3 {
		// a replay cut short (no Game End) keeps its metadata too
		beh.file_end = "none".into();
		beh.hist.pop();
		beh.steps.pop();
		beh.fin.gend = 0;
	}
	let mut o = GenOpts::new(seed ^ idx as u64, ver);
	let body = ubjson_body(tree);
	o.meta_body = Some(body.clone());
	let built = gen::build_beh(db, &beh, &o);
	sink.count(fnv(&body), nontrivial);
	sink.sample(|| json!({"metadata_ubjson_hex": crate::util::hex(&body[..body.len().min(200)]), "version": ver}));
	let cls = format!("regime:{}", reg);
	let report = |check: &str, kind: &str, d: String| sink.report(&viol(check, &cls, kind, d), &|| json!({"ver": ver, "bytes_hex": crate::util::hex(&built.bytes)}));
	let g = match real::read_slp(&built.bytes, false, false) {
		Outcome::Ok(g) => g,
		Outcome::Err(_) if may_reject => return,
		o2 => return report("metadata_read", o2.kind(), o2.detail()),
	};
	match &g.metadata {
		None => return report("metadata_read", "mismatch", "metadata reported as absent".into()),
		Some(m) => {
			if let Some(d) = same_tree(m, tree, "metadata") {
				report("metadata_tree", "mismatch", d);
			}
		}
	}
	match real::write_slp(&g) {
		Outcome::Ok(w) => {
			if let Some(i) = first_diff(&w, &built.bytes) {
				report("metadata_bytes", "mismatch", format!("written file differs at byte {} (metadata starts at {})", i, built.raw_end));
			}
		}
		o2 => report("metadata_write", o2.kind(), o2.detail()),
	}
	// the tree does not depend on how the bytes arrive or leave: read in pieces (with EINTR) from a stream that does not
	// start at the replay, written through a sink that takes a few bytes per call, written after a write that failed
	if !may_reject {
		let k = 1 + (fnv(&body) % 200) as usize;
		let mut data = vec![0x7Bu8; k];
		data.extend_from_slice(&built.bytes);
		data.extend_from_slice(b"U\x08metadata{}");
		let mut r = crate::stream::FragReader::new(&data, crate::stream::Frag::RandomIntr(fnv(&body)));
		r.set_position(k);
		match crate::util::guard(|| peppi::io::slippi::read(&mut r, None)) {
			Outcome::Ok(g2) => {
				if g2.metadata != g.metadata {
					report("metadata_tree", "mismatch", "the tree differs when the file is read in pieces from a stream offset".into());
				}
			}
			o2 => report("metadata_read", o2.kind(), format!("read in pieces from a stream offset: {}", o2.detail())),
		}
		match real::write_slp_short(&g, 1 + body.len() % 7) {
			Outcome::Ok(w) => {
				if w != built.bytes {
					report("metadata_bytes", "mismatch", format!("written through a sink that takes {} bytes per call: the file differs", 1 + body.len() % 7));
				}
			}
			o2 => report("metadata_write", o2.kind(), o2.detail()),
		}
		real::fail_write_slp(&g, built.bytes.len() - 1 - (fnv(&body) as usize % body.len().max(1)).min(built.bytes.len() - 1));
		if let Outcome::Ok(w) = real::write_slp(&g) {
			if w != built.bytes {
				report("metadata_bytes", "mismatch", "written after a write that failed inside the metadata: the file differs".into());
			}
		}
	}
	// the JSON copy inside .slpp
	let arch = match real::write_slpp(g, Comp::None) {
		Outcome::Ok(a) => a,
		o2 => return report("metadata_slpp_write", o2.kind(), o2.detail()),
	};
	match tarx::walk(&arch) {
		Ok(es) => match es.iter().find(|e| e.name == "metadata.json") {
			Some(e) => match serde_json::from_slice::<Value>(&e.data) {
				Ok(Value::Object(m)) => {
					if let Some(d) = same_tree(&m, tree, "metadata.json") {
						report("metadata_json", "mismatch", d);
					}
				}
				other => report("metadata_json", "mismatch", format!("metadata.json is not an object: {:?}", other.map(|v| v.to_string()))),
			},
			None => report("metadata_json", "mismatch", "no metadata.json entry".into()),
		},
		Err(e) => report("metadata_json", "mismatch", e),
	}
	match real::read_slpp(&arch, false) {
		Outcome::Ok(g2) => {
			match &g2.metadata {
				Some(m) => {
					if let Some(d) = same_tree(m, tree, "slpp.metadata") {
						report("metadata_slpp", "mismatch", d);
					}
				}
				None => report("metadata_slpp", "mismatch", "metadata lost through .slpp".into()),
			}
			match real::write_slp(&g2) {
				Outcome::Ok(w) => {
					if w != built.bytes {
						report("metadata_slpp", "mismatch", "bytes differ after the trip through .slpp".into());
					}
				}
				o2 => report("metadata_slpp", o2.kind(), o2.detail()),
			}
		}
		o2 => report("metadata_slpp_read", o2.kind(), o2.detail()),
	}
}

pub fn cmd_ubjson(a: &Args) {
	let db = LayoutDb::load(a.req("layout"));
	let sink = Sink::new(a.get("replay-dir").unwrap_or("work/replays"));
	let seed = a.num("seed", 1);
	let threads = a.num("threads", 8) as usize;
	for path in a.req("in").split(',') {
		crate::for_each_tagged(path, "TREE", threads, a.num("stride", 1) as usize, usize::MAX, |idx, v| {
			let tree = tree_from_model(&v["tree"], idx);
			let nested = tree.iter().any(|(_, n)| matches!(n, Node::M(_)));
			check_tree(&db, &tree, idx, seed, &sink, nested || tree.len() > 1);
		});
	}
	// beyond the model's bound: seeded random wide / deep trees
	let n = a.num("random", 300) as usize;
	let next = std::sync::atomic::AtomicUsize::new(0);
	std::thread::scope(|s| {
		for _ in 0..threads {
			s.spawn(|| loop {
				let i = next.fetch_add(1, std::sync::atomic::Ordering::SeqCst);
				if i >= n {
					return;
				}
				let mut r = Rng::keyed(seed, i as u64, 0xC16);
				let depth = 1 + r.below(6) as usize;
				let tree = random_tree(&mut r, depth);
				check_tree(&db, &tree, i, seed, &sink, true);
			});
		}
	});
	// chains of nested maps up to the deepest nesting both formats can hold (the metadata map is level 1; 127 levels)
	for depth in [100usize, 120, 125, 126] {
		let mut t: Vec<(String, Node)> = vec![("leaf".to_string(), Node::I(depth as i32))];
		for d in 0..depth {
			t = vec![(format!("n{}", d % 10), Node::M(t))];
		}
		check_tree(&db, &t, depth, seed, &sink, true);
	}
	// wide trees: many maps at the same level (the limit is on nesting, not on the number of maps)
	for width in [100usize, 126, 127, 128, 129, 300, 1000] {
		let sub: Vec<(String, Node)> = (0..width).map(|j| (format!("p{}", j), Node::M(vec![("c".to_string(), Node::I(j as i32))]))).collect();
		let t = vec![("players".to_string(), Node::M(sub)), ("lastFrame".to_string(), Node::I(-1))];
		check_tree(&db, &t, width, seed, &sink, true);
	}
	// beyond that the reader may refuse; what it accepts must still survive the trip through .slpp
	for depth in [127usize, 128, 129, 200, 1000] {
		let mut t: Vec<(String, Node)> = vec![("leaf".to_string(), Node::I(depth as i32))];
		for d in 0..depth {
			t = vec![(format!("n{}", d % 10), Node::M(t))];
		}
		check_tree_opt(&db, &t, depth, seed, &sink, true, true);
	}
	// absence of metadata
	for (i, reg) in ["A", "B", "C"].iter().enumerate() {
		let vs = db.versions_of_regime(reg);
		let (a0, b0) = vs[(seed as usize + i) % vs.len()];
		let mut beh = simple_beh_gecko(reg, &["single", "none", "none", "none"], 1, 0, 0);
		beh.meta = "none".into();
		let built = gen::build_beh(&db, &beh, &GenOpts::new(seed, [a0, b0, 0]));
		sink.count(fnv(&built.bytes), true);
		let cls = format!("regime:{},meta=none", reg);
		match real::read_slp(&built.bytes, false, false) {
			Outcome::Ok(g) => {
				if g.metadata.is_some() {
					sink.report(&viol("metadata_absent", &cls, "mismatch", "metadata reported for a file without any".into()), &|| json!({}));
				}
				match real::write_slpp(g, Comp::None).ok().map(|a| real::read_slpp(&a, false)) {
					Some(Outcome::Ok(g2)) => {
						if g2.metadata.is_some() {
							sink.report(&viol("metadata_absent", &cls, "mismatch", "metadata appeared through .slpp".into()), &|| json!({}));
						}
					}
					Some(o2) => sink.report(&viol("metadata_absent", &cls, o2.kind(), o2.detail()), &|| json!({})),
					None => {}
				}
			}
			o2 => sink.report(&viol("metadata_absent", &cls, o2.kind(), o2.detail()), &|| json!({})),
		}
	}
	sink.summary(json!({"random_trees": n}));
}

// ---------------------------------------------------------------------------------------------
// C18
// ---------------------------------------------------------------------------------------------

#[derive(Deserialize, Debug, Clone)]
struct Shape {
	end: bool,
	gecko: bool,
	meta: bool,
	frames: bool,
}

#[derive(Deserialize, Debug, Clone)]
struct Arch {
	game: Shape,
	version: [u8; 3],
	arch: Vec<String>,
	cut_entry: usize,
	cut_part: String,
	outcome: String,
	writer: Vec<String>,
}

fn check_arch(db: &LayoutDb, x: &Arch, idx: usize, seed: u64, sink: &Sink) {
	let ngecko = if x.game.gecko { 1 + idx % 3 } else { 0 };
	// Gecko codes exist from 3.3; otherwise any version
	let (reg, ver) = if x.game.gecko {
		("C", [3u8, [3u8, 7, 12, 16][idx % 4], 0])
	} else {
		let reg = ["C", "B", "A"][idx % 3];
		let vs = db.versions_of_regime(reg);
		let (a, b) = vs[(idx * 17 + seed as usize) % vs.len()];
		(reg, [a, b, 0])
	};
	let occ: Vec<&str> = if idx % 2 == 0 { vec!["ic", "none", "single", "none"] } else { vec!["none", "single", "single", "none"] };
	let mut beh = simple_beh_gecko(reg, &occ, if x.game.frames { 2 } else { 0 }, 1, ngecko);
	if !x.game.end {
		beh.file_end = "none".into();
		beh.hist.pop();
		beh.steps.pop();
		beh.fin.gend = 0;
	}
	beh.meta = if x.game.meta { "some".into() } else { "none".into() };
	let mut o = GenOpts::new(seed ^ ((idx as u64) << 12), ver);
	o.plan = 1;
	let built = gen::build_beh(db, &beh, &o);
	let comp = Comp::all()[idx % 3];
	let with_hash = idx % 2 == 0;
	let cls = format!("end={},gecko={},meta={},frames={},comp:{}", x.game.end, x.game.gecko, x.game.meta, x.game.frames, comp.name());
	let report = |check: &str, kind: &str, d: String| sink.report(&viol(check, &cls, kind, d), &|| json!({"ver": ver, "arch": x.arch, "peppi_version": x.version, "slp_hex": crate::util::hex(&built.bytes)}));
	let g = match real::read_slp(&built.bytes, false, with_hash) {
		Outcome::Ok(g) => g,
		_ => return,
	};
	let hash = g.hash.clone();
	let arch = match real::write_slpp(g, comp) {
		Outcome::Ok(a) => a,
		o2 => return report("slpp_write", o2.kind(), o2.detail()),
	};
	sink.count(fnv(&arch) ^ fnv(format!("{:?}{:?}{}{}", x.arch, x.version, x.cut_entry, x.cut_part).as_bytes()), x.arch.len() > x.writer.len() || x.cut_entry > 0);
	sink.sample(|| json!({"shape": cls, "entries": x.arch, "peppi_version": x.version, "cut": [x.cut_entry, x.cut_part], "model_outcome": x.outcome}));
	let entries = match tarx::walk(&arch) {
		Ok(e) => e,
		Err(e) => return report("tar_structure", "mismatch", e),
	};
	let intact = x.cut_entry == 0;
	let names: Vec<String> = entries.iter().map(|e| e.name.clone()).collect();
	if names != x.writer {
		// the crafted archives below are assembled from the writer's entries: without them, stop here
		return report("entry_order", "mismatch", format!("entries {:?}, model {:?}", names, x.writer));
	}
	if intact && x.arch == x.writer && x.version == [2, 0, 0] {
		// --- what the writer produced ---
		// a Gecko list that is present but empty (every Message Splitter block declares an actual size of 0): the blob
		// entry is written all the same and the reader gets the same (empty) list back
		if x.game.gecko {
			let mut z = built.bytes.clone();
			let mut blocks = 0;
			for (b, off) in built.ev_bufs.iter().zip(built.ev_offs.iter()) {
				if b.len() == 517 && b[0] == 0x10 && b[515] == 0x3D {
					z[off + 513] = 0;
					z[off + 514] = 0;
					blocks += 1;
				}
			}
			if let (true, Outcome::Ok(gz), Outcome::Ok(gz2)) = (blocks > 0, real::read_slp(&z, false, false), real::read_slp(&z, false, false)) {
				if gz.gecko_codes.as_ref().map_or(false, |c| c.actual_size == 0) {
					let want = gz2.gecko_codes;
					match real::write_slpp(gz, comp) {
						Outcome::Ok(az) => {
							match tarx::walk(&az) {
								Ok(ez) => {
									let nz: Vec<String> = ez.iter().map(|e| e.name.clone()).collect();
									if nz != x.writer {
										report("entry_order", "mismatch", format!("empty Gecko list: entries {:?}, model {:?}", nz, x.writer));
									}
								}
								Err(e) => report("tar_structure", "mismatch", e),
							}
							match real::read_slpp(&az, false) {
								Outcome::Ok(gb) => {
									if gb.gecko_codes != want {
										report("raw_entries", "mismatch", "empty Gecko list: the list read from the archive differs from the game's".into());
									}
								}
								o2 => report("slpp_read", o2.kind(), o2.detail()),
							}
						}
						o2 => report("slpp_write", o2.kind(), o2.detail()),
					}
				}
			}
		}
		if arch.len() < 10 || &arch[..10] != b"peppi.json" {
			report("signature", "mismatch", "the archive does not start with peppi.json".into());
		}
		if arch.len() % 512 != 0 || !arch[arch.len() - 1024..].iter().all(|b| *b == 0) {
			report("tar_structure", "mismatch", "archive is not terminated by two zero blocks".into());
		}
		// determinism (also after a write of another game into a sink that fails part-way)
		if idx % 2 == 1 {
			let mut o2 = GenOpts::new(seed ^ 0xD37 ^ ((idx as u64) << 12), ver);
			o2.plan = 1;
			let other = gen::build_beh(db, &beh, &o2);
			if let (Outcome::Ok(gx), Outcome::Ok(gy)) = (real::read_slp(&other.bytes, false, with_hash), real::read_slp(&other.bytes, false, with_hash)) {
				if let Outcome::Ok(full) = real::write_slpp(gy, comp) {
					real::fail_write_slpp(gx, comp, full.len() - 1 - (idx * 131) % full.len().min(4096));
				}
			}
		}
		if let Outcome::Ok(g1) = real::read_slp(&built.bytes, false, with_hash) {
			// (now and then the second write happens more than a second later: the bytes do not depend on the clock)
			if idx % 20 == 3 || (!x.game.meta && idx % 7 == 2) {
				std::thread::sleep(std::time::Duration::from_millis(1100));
			}
			if let Outcome::Ok(again) = real::write_slpp(g1, comp) {
				if again != arch {
					report("deterministic", "mismatch", "writing the same game twice gives different bytes".into());
				}
			}
		}
		// a sink that fails within the last bytes of the archive: the writer reports the error
		if let Outcome::Ok(gf) = real::read_slp(&built.bytes, false, with_hash) {
			let limit = arch.len() - 1 - (idx * 37) % arch.len().min(1600);
			match real::fail_write_slpp_outcome(gf, comp, limit) {
				Outcome::Err(_) => {}
				Outcome::Ok(n) => report("write_error_lost", "mismatch", format!("the sink failed after {} of {} bytes ({} taken) and the writer reported success", limit, arch.len(), n)),
				o2 => report("write_error_lost", o2.kind(), o2.detail()),
			}
		}
		// JSON entries = JSON rendering of what the reader reconstructs from the raw entries
		match real::read_slpp(&arch, false) {
			Outcome::Ok(g2) => {
				let get = |n: &str| entries.iter().find(|e| e.name == n).map(|e| serde_json::from_slice::<Value>(&e.data));
				let cmp = |n: &str, want: Value| match get(n) {
					Some(Ok(v)) => {
						if v != want {
							report("json_entries", "mismatch", format!("{} differs from the rendering of the reconstructed value", n));
						}
					}
					Some(Err(e)) => report("json_entries", "mismatch", format!("{} is not valid JSON: {}", n, e)),
					None => report("json_entries", "mismatch", format!("{} missing", n)),
				};
				// render to JSON text and parse it back, so that floats go through the same text form
				let render = |v: Vec<u8>| serde_json::from_slice::<Value>(&v).unwrap();
				cmp("start.json", render(serde_json::to_vec(&g2.start).unwrap()));
				cmp("metadata.json", render(serde_json::to_vec(&g2.metadata).unwrap()));
				if let Some(e) = &g2.end {
					cmp("end.json", render(serde_json::to_vec(e).unwrap()));
				}
				let mut pj = json!({"version": [2, 0, 0]});
				if let Some(h) = &hash {
					pj["slp_hash"] = json!(h);
				}
				if let Some(q) = g2.quirks {
					pj["quirks"] = json!({"double_game_end": q.double_game_end});
				}
				cmp("peppi.json", pj);
				if g2.hash != hash {
					report("json_entries", "mismatch", "stored hash differs".into());
				}
				// raw entries verbatim
				if entries.iter().find(|e| e.name == "start.raw").map(|e| &e.data) != Some(&built.start_block) {
					report("raw_entries", "mismatch", "start.raw is not the Game Start block".into());
				}
				if x.game.end && entries.iter().find(|e| e.name == "end.raw").map(|e| &e.data) != Some(&built.end_block) {
					report("raw_entries", "mismatch", "end.raw is not the Game End block".into());
				}
			}
			o2 => report("slpp_read", o2.kind(), o2.detail()),
		}
	}
	// --- the crafted archive of the model: unknown entries inserted, format version rewritten ---
	let mut r = Rng::keyed(seed, idx as u64, 0xC18);
	let mut crafted: Vec<(String, Vec<u8>)> = vec![];
	let mut it = entries.iter();
	for (n, name) in x.arch.iter().enumerate() {
		if name == "x" {
			let mut d = vec![0u8; *r.pick(&[0usize, 1, 511, 512, 513, 3000])];
			r.fill(&mut d);
			let mut name = [format!("extra_{}.bin", n), "notes.txt".to_string(), "frames.arrow.bak".to_string()][n % 3].clone();
			if intact && idx % 4 == 1 {
				// a member whose path does not fit the 100-byte name field (GNU long-name record or PAX path record);
				// the first 100 bytes of it end in the name of a known entry
				let known = ["start.raw", "metadata.json", "peppi.json", "frames.arrow", "end.raw", "gecko_codes.raw"][(n + idx / 4) % 6];
				name = format!("{}/{}.orig-copy{}", "x".repeat(99 - known.len()), known, if (idx / 8) % 2 == 0 { "" } else { "2" });
			}
			// members that are not regular files (a directory, a symbolic link, a hard link, a fifo): unknown all the same
			let mut d = d;
			if intact && idx % 4 == 3 {
				name = format!("{}!{}", ["dir", "symlink", "hardlink", "fifo"][(n + idx / 4) % 4], ["notes/", "latest", "start.raw.link", "pipe"][(n + idx / 4) % 4]);
				d = vec![];
			}
			// names that are not UTF-8 (Latin-1), "./" as `tar -C dir .` writes it, a name that is only dots
			if intact && idx % 8 == 6 {
				name = format!("rawname!{}", ["636166e92e747874", "2e2f", "2e2e", "ff", "6e6f7465732ff1"][(n + idx / 8) % 5]);
			}
			crafted.push((name, d));
		} else {
			let e = it.next().expect("model archive has more known entries than the writer produced");
			assert_eq!(&e.name, name);
			let data = if name == "peppi.json" {
				let mut v: Value = serde_json::from_slice(&e.data).unwrap();
				v["version"] = json!(x.version);
				serde_json::to_vec(&v).unwrap()
			} else {
				e.data.clone()
			};
			crafted.push((name.clone(), data));
		}
	}
	// the reader finds the members by name: their order (peppi.json first, frames.arrow last) is the writer's business
	if intact && idx % 5 == 2 {
		let body: Vec<(String, Vec<u8>)> = crafted.iter().filter(|(n, _)| n != "peppi.json" && n != "frames.arrow" && n != "metadata.json" && n != "start.json").cloned().collect();
		let pick = |n: &str| crafted.iter().find(|(m, _)| m == n).cloned();
		let mut re: Vec<(String, Vec<u8>)> = vec![];
		re.extend(pick("peppi.json"));
		re.extend(body);
		re.extend(pick("start.json"));
		re.extend(pick("metadata.json"));
		re.extend(pick("frames.arrow"));
		if re.len() == crafted.len() {
			crafted = re;
		}
	}
	let mut bytes = tarx::write(&crafted);
	if !intact {
		let es = tarx::walk(&bytes).unwrap();
		let e = &es[x.cut_entry - 1];
		let at = match x.cut_part.as_str() {
			"header" => e.header_off + [0usize, 1, 100, 511][idx % 4],
			"data" => {
				if e.size == 0 {
					return;
				}
				e.data_off + (e.size / 2).min(e.size - 1)
			}
			"padding" => {
				if e.end_off == e.data_off + e.size {
					return;
				}
				e.data_off + e.size + (e.end_off - e.data_off - e.size) / 2
			}
			"trailer" => e.end_off + 300,
			part => {
				// Arrow framing of the entry: magic, schema message, record batch message, end-of-stream, footer
				let (batch_start, batch_end) = match arrow_frames(&e.data) {
					Some(x) => x,
					None => return report("arrow_framing", "mismatch", "frames.arrow is not framed as magic / schema / batch / end-of-stream".into()),
				};
				e.data_off
					+ match part {
						"magic" => [0usize, 3, 7][idx % 3],
						"schema" => 8 + [1usize, 4, 8, 20][idx % 4].min(batch_start - 9),
						"gap_batch" => batch_start,
						"batch" => batch_start + [1usize, 4, 8, 9][idx % 4].max((batch_end - batch_start) * (idx % 5) / 5).min(batch_end - batch_start - 1),
						"gap_eos" => batch_end,
						"eos" => batch_end + [1usize, 4, 7][idx % 3],
						"footer" => (batch_end + 8 + [0usize, 1, 10][idx % 3]).min(e.size - 1),
						_ => return,
					}
			}
		};
		bytes.truncate(at);
	}
	// (every other archive arrives in short reads)
	let res = if intact {
		if idx % 2 == 0 {
			real::read_slpp(&bytes, false)
		} else {
			real::read_slpp_frag(&bytes, false, crate::stream::Frag::Random(idx as u64))
		}
	} else {
		// a reader may also wait forever at a cut: run under a deadline
		let b2 = bytes.clone();
		let mut dog = crate::streamchk::Watchdog::new();
		let deadline = std::time::Duration::from_secs(20);
		match dog.run(deadline, move || {
			if idx % 2 == 0 {
				real::read_slpp(&b2, false)
			} else {
				real::read_slpp_frag(&b2, false, crate::stream::Frag::Random(idx as u64))
			}
		}) {
			Some(r) => r,
			None => return report("cut_hang", "hang", format!("reading the archive cut at {} {} did not return within {:?}", x.cut_entry, x.cut_part, deadline)),
		}
	};
	match (&res, x.outcome.as_str()) {
		(Outcome::Ok(g3), "ok") => {
			match real::write_slp(g3) {
				Outcome::Ok(w) => {
					if w != built.bytes {
						report("crafted_read", "mismatch", "the game read from the archive differs".into());
					}
				}
				o2 => report("crafted_read", o2.kind(), o2.detail()),
			}
			// the same archive with the reader's skip-frames option: start, end, metadata, Gecko codes, hash as in the full read
			if intact {
				match real::read_slpp(&bytes, true) {
					Outcome::Ok(gs) => {
						if gs.metadata != g3.metadata || gs.end != g3.end || gs.start.bytes != g3.start.bytes || gs.gecko_codes != g3.gecko_codes || gs.hash != g3.hash {
							report("crafted_read_skip", "mismatch", "skip-frames read of the archive differs from the full read in metadata / end / start / Gecko codes / hash".into());
						}
					}
					o2 => report("crafted_read_skip", o2.kind(), o2.detail()),
				}
			}
		}
		(Outcome::Err(_), "err") => {
			// rejected: also with the reader's skip-frames option
			if intact {
				if let Outcome::Ok(_) = real::read_slpp(&bytes, true) {
					report("version_gate", "mismatch", format!("accepted with the skip-frames option although the model rejects it (format version {:?})", x.version));
				}
			}
		}
		(Outcome::Ok(_), "err") => report(
			if intact { "version_gate" } else { "cut_accepted" },
			"mismatch",
			format!("accepted although the model rejects it (format version {:?}, cut {} {})", x.version, x.cut_entry, x.cut_part),
		),
		(Outcome::Err(e), "ok") => report(if x.arch.len() > x.writer.len() { "unknown_entries" } else { "crafted_read" }, "err", format!("rejected although the model accepts it: {}", e)),
		(o2, _) => report("crafted_read", o2.kind(), o2.detail()),
	}
}

pub fn cmd_slpp(a: &Args) {
	let db = LayoutDb::load(a.req("layout"));
	let sink = Sink::new(a.get("replay-dir").unwrap_or("work/replays"));
	let seed = a.num("seed", 1);
	let threads = a.num("threads", 8) as usize;
	let mut n = 0;
	for path in a.req("in").split(',') {
		n += crate::for_each_tagged(path, "ARCH", threads, a.num("stride", 1) as usize, usize::MAX, |idx, v| {
			let x: Arch = serde_json::from_value(v).expect("ARCH json");
			check_arch(&db, &x, idx, seed, &sink);
		});
	}
	sink.summary(json!({"archives": n}));
}

/// Byte offsets (start of the record-batch message, end of it) inside an Arrow IPC file image that
/// consists of the magic, a schema message, one record-batch message and the end-of-stream marker.
pub fn arrow_frames(d: &[u8]) -> Option<(usize, usize)> {
	if d.len() < 16 || &d[..6] != b"ARROW1" {
		return None;
	}
	let le32 = |o: usize| -> Option<u32> { d.get(o..o + 4).map(|b| u32::from_le_bytes([b[0], b[1], b[2], b[3]])) };
	// one encapsulated message at `o`: returns (offset of the next message)
	let msg = |o: usize| -> Option<usize> {
		if le32(o)? != 0xFFFF_FFFF {
			return None;
		}
		let mlen = le32(o + 4)? as usize;
		if mlen == 0 {
			return Some(o + 8); // end-of-stream marker
		}
		let fb = o + 8;
		let table = fb + le32(fb)? as usize;
		let soffset = i32::from_le_bytes(d.get(table..table + 4)?.try_into().ok()?) as i64;
		let vt = usize::try_from(table as i64 - soffset).ok()?;
		let vt_size = u16::from_le_bytes(d.get(vt..vt + 2)?.try_into().ok()?) as usize;
		// Message fields: version, header_type, header, bodyLength
		let body_len = if vt_size >= 4 + 2 * 4 {
			let fo = u16::from_le_bytes(d.get(vt + 4 + 6..vt + 4 + 8)?.try_into().ok()?) as usize;
			if fo == 0 {
				0
			} else {
				u64::from_le_bytes(d.get(table + fo..table + fo + 8)?.try_into().ok()?) as usize
			}
		} else {
			0
		};
		Some(fb + mlen + body_len)
	};
	let batch_start = msg(8)?;
	let batch_end = msg(batch_start)?;
	// what follows must be the end-of-stream marker
	if le32(batch_end)? != 0xFFFF_FFFF || le32(batch_end + 4)? != 0 {
		return None;
	}
	Some((batch_start, batch_end))
}
