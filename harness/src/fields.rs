//! C03: every exposed frame field equals the big-endian value at its TLA+-layout offset, for every
//! version; a field exists exactly when the version gate says so.  Value walks cover every 8-bit
//! value (all versions) and every 16-bit value (layout-class representatives) of every field.

use serde_json::json;

use crate::checks::{self, Ctx};
use crate::gen::{self, ACol, AEvent, AFin, Beh, Built, GenOpts};
use crate::layout::{LayoutDb, StructL};
use crate::util::fnv;
use crate::{Args, Sink};

fn ev(k: &str, id: i64, p: i64, f: i64, tok: usize) -> AEvent {
	AEvent {
		k: k.into(),
		id,
		p,
		f,
		x: 0,
		tok,
	}
}

/// A canonical history in which every character is present in every frame, with its (trivial)
/// final parser state: `nframes` frames, `nitems` items per frame.
pub fn simple_beh(reg: &str, occ: &[&str], nframes: usize, nitems: usize) -> Beh {
	simple_beh_gecko(reg, occ, nframes, nitems, 0)
}

/// As `simple_beh`, preceded by `ngecko` message-splitter blocks carrying Gecko codes (regime C only).
pub fn simple_beh_gecko(reg: &str, occ: &[&str], nframes: usize, nitems: usize, ngecko: usize) -> Beh {
	let ids: Vec<i64> = (0..nframes).map(|i| -123 + i as i64).collect();
	simple_beh_ids(reg, occ, &ids, nitems, ngecko)
}

/// As `simple_beh_gecko` with the frame ids given (rollbacks: ids that go back; gaps: ids that jump ahead).
/// Before 2.2 a frame is delimited by a change of id: consecutive equal ids must not be given for regime A.
pub fn simple_beh_ids(reg: &str, occ: &[&str], ids: &[i64], nitems: usize, ngecko: usize) -> Beh {
	simple_beh_absent(reg, occ, ids, nitems, ngecko, &|_, _| false)
}

/// As `simple_beh_ids`; `absent(frame index, character index)` says which characters send nothing in which frame
/// (before 2.2 at least one character must be present in every frame: a frame is opened by a Pre event).
pub fn simple_beh_absent(reg: &str, occ: &[&str], ids: &[i64], nitems: usize, ngecko: usize, absent: &dyn Fn(usize, usize) -> bool) -> Beh {
	let nframes = ids.len();
	let v22 = reg != "A";
	let v30 = reg == "C";
	let mut chars: Vec<(u8, u8)> = vec![];
	for (p, o) in occ.iter().enumerate() {
		if *o != "none" {
			chars.push((p as u8, 0));
		}
		if *o == "ic" {
			chars.push((p as u8, 1));
		}
	}
	let mut hist = vec![];
	let mut fin = AFin {
		ids: vec![],
		pre: chars.iter().map(|c| ACol { p: c.0, f: c.1, toks: vec![] }).collect(),
		post: chars.iter().map(|c| ACol { p: c.0, f: c.1, toks: vec![] }).collect(),
		fstart: vec![],
		fend: vec![],
		items: vec![],
		off: vec![0],
		gend: 0,
		gecko: vec![],
		gactual: 0,
		quirk: false,
		nev: 0,
	};
	let mut steps = vec![];
	let mut closed = 0usize;
	for j in 0..ngecko {
		let last = j + 1 == ngecko;
		hist.push(AEvent {
			k: "split".into(),
			id: 0,
			p: 61,
			f: last as i64,
			x: if last { 100 } else { 512 },
			tok: hist.len() + 1,
		});
		fin.gecko.push(hist.len());
		steps.push([0, 0]);
	}
	if ngecko > 0 {
		fin.gactual = (512 * (ngecko - 1) + 100) as u32;
	}
	for i in 0..nframes {
		let id = ids[i];
		fin.ids.push(id as i32);
		if v22 {
			hist.push(ev("fs", id, 0, 0, hist.len() + 1));
			fin.fstart.push(hist.len());
			if !v30 && i > 0 {
				closed = i;
			}
			steps.push([i + 1, closed]);
		}
		let mut first_of_frame = true;
		for (ci, c) in chars.iter().enumerate() {
			if absent(i, ci) {
				fin.pre[ci].toks.push(0);
				continue;
			}
			hist.push(ev("pre", id, c.0 as i64, c.1 as i64, hist.len() + 1));
			fin.pre[ci].toks.push(hist.len());
			if !v22 && first_of_frame && i > 0 {
				closed = i;
			}
			first_of_frame = false;
			steps.push([i + 1, closed]);
		}
		if v30 {
			for _ in 0..nitems {
				hist.push(ev("item", id, 0, 0, hist.len() + 1));
				fin.items.push(hist.len());
				steps.push([i + 1, closed]);
			}
		}
		for (ci, c) in chars.iter().enumerate() {
			if absent(i, ci) {
				fin.post[ci].toks.push(0);
				continue;
			}
			hist.push(ev("post", id, c.0 as i64, c.1 as i64, hist.len() + 1));
			fin.post[ci].toks.push(hist.len());
			steps.push([i + 1, closed]);
		}
		if v30 {
			hist.push(ev("fe", id, 0, 0, hist.len() + 1));
			fin.fend.push(hist.len());
			fin.off.push(fin.items.len());
			closed = i + 1;
			steps.push([i + 1, closed]);
		}
	}
	hist.push(ev("ge", 0, 0, 0, hist.len() + 1));
	fin.gend = hist.len();
	steps.push([nframes, closed]);
	fin.nev = hist.len();
	let mut table: Vec<String> = ["gs", "pre", "post", "ge"].iter().map(|s| s.to_string()).collect();
	if v22 {
		table.push("fs".into());
	}
	if v30 {
		table.push("item".into());
		table.push("fe".into());
	}
	if ngecko > 0 {
		table.push("gecko".into());
		table.push("split".into());
	}
	Beh {
		reg: reg.into(),
		occ: occ.iter().map(|s| s.to_string()).collect(),
		hist,
		file_end: "single".into(),
		meta: "some".into(),
		fin,
		steps,
		dump: vec![],
		emit: vec![],
		table,
		counts: Default::default(),
		junk: 0,
		tail_unk: [0, 0],
	}
}

fn set_field(built: &mut Built, evi: usize, off: usize, w: usize, v: u64) {
	for i in 0..w {
		let b = (v >> (8 * (w - 1 - i))) as u8;
		built.ev_bufs[evi][off + i] = b;
		built.bytes[built.ev_offs[evi] + off + i] = b;
	}
}

const SPECIAL32: [u32; 14] = [
	0x7FC0_0000, 0x7FA0_0000, 0x7F80_0001, 0xFFFF_FFFF, 0xFFC1_2345, 0x0000_0000, 0x8000_0000, 0x7F80_0000, 0xFF80_0000,
	0x0000_0001, 0x807F_FFFF, 0x7FFF_FFFF, 0x0100_0000, 0x0000_00FF,
];

/// Overwrites the fields of every frame event with walk values (frame index drives the walk).
fn apply_walk(built: &mut Built, beh: &Beh, st_of: &dyn Fn(&str) -> Option<StructL>) {
	let mut frame_idx = 0usize;
	let mut last_id = None;
	for (evi, e) in beh.hist.iter().enumerate() {
		let st = match st_of(&e.k) {
			Some(s) => s,
			None => continue,
		};
		if Some(e.id) != last_id {
			if last_id.is_some() {
				frame_idx += 1;
			}
			last_id = Some(e.id);
		}
		let i = frame_idx as u64;
		let salt = (e.p as u64) * 5 + (e.f as u64) * 11;
		if frame_idx == 0 {
			// positional sentinel: payload byte k is an injective function of k
			for k in st.hdr..(1 + st.size) {
				let b = ((k * 37 + 11) % 256) as u64;
				set_field(built, evi, k, 1, b);
			}
			continue;
		}
		for (j, f) in st.fields.iter().enumerate() {
			let j = j as u64;
			match f.w {
				1 => set_field(built, evi, f.off, 1, (i + 3 * j + salt) & 0xFF),
				2 => set_field(built, evi, f.off, 2, (i + 257 * j + salt * 1031) & 0xFFFF),
				_ => {
					if i % 3 == 0 {
						let v = SPECIAL32[((i / 3 + j + salt) % SPECIAL32.len() as u64) as usize];
						set_field(built, evi, f.off, 4, v as u64);
					}
				}
			}
		}
	}
}

pub fn cmd_fields(a: &Args) {
	let db = LayoutDb::load(a.req("layout"));
	let sink = Sink::new(a.get("replay-dir").unwrap_or("work/replays"));
	let seed = a.num("seed", 1);
	let threads = a.num("threads", 8) as usize;
	let small = a.num("small-frames", 257) as usize;
	let big = a.num("big-frames", 65537) as usize;
	let nbig = a.num("big-classes", 4) as usize; // how many layout classes get the 16-bit walk
	let stride = a.num("version-stride", 1) as usize;
	let with_rows = a.has("rows");

	// work list: (major, minor, frames)
	let max = db.blocks.max_supported;
	let bounds = db.class_boundaries();
	let mut work: Vec<(u8, u8, usize)> = vec![];
	let mut n = 0usize;
	for maj in 0..=max[0] {
		for min in 0..=255u8 {
			if (maj, min) == (0, 0) || (maj, min) > (max[0], max[1]) {
				continue;
			}
			// the first version of every layout class, and the last one of the class before it (a gate that is off by
			// one in either direction is wrong exactly there)
			let is_bound = bounds.contains(&(maj, min)) || (min < 255 && bounds.contains(&(maj, min + 1)));
			n += 1;
			if is_bound || (n + seed as usize) % stride.max(1) == 0 {
				work.push((maj, min, small));
			}
		}
	}
	let supported: Vec<(u8, u8)> = bounds.iter().cloned().filter(|b| *b <= (max[0], max[1])).collect();
	for k in 0..nbig.min(supported.len()) {
		// rotate through the classes with the seed; always include the newest layout
		let b = if k == 0 {
			*supported.last().unwrap()
		} else {
			supported[(seed as usize * 7 + k * 5) % supported.len()]
		};
		work.push((b.0, b.1, big));
	}

	let next = std::sync::atomic::AtomicUsize::new(0);
	std::thread::scope(|s| {
		for _ in 0..threads.max(1) {
			s.spawn(|| loop {
				let i = next.fetch_add(1, std::sync::atomic::Ordering::SeqCst);
				if i >= work.len() {
					return;
				}
				let (maj, min, nframes) = work[i];
				let reg = db.regime_of(maj, min);
				let occ: Vec<&str> = if i % 2 == 0 {
					vec!["ic", "none", "single", "none"]
				} else {
					vec!["none", "single", "none", "ic"]
				};
				let beh = simple_beh(reg, &occ, nframes, 1);
				let patch = if (maj, min) == (max[0], max[1]) { 0 } else { (seed as u8).wrapping_mul(31).wrapping_add(i as u8) };
				let mut o = GenOpts::new(seed ^ ((i as u64) << 24), [maj, min, patch]);
				o.plan = 0;
				let mut built = gen::build_beh(&db, &beh, &o);
				let l = db.for_version(maj, min).clone();
				apply_walk(&mut built, &beh, &|k| match k {
					"pre" => Some(l.pre.clone()),
					"post" => Some(l.post.clone()),
					"fs" => Some(l.start.clone()),
					"fe" => Some(l.end.clone()),
					"item" => Some(l.item.clone()),
					_ => None,
				});
				sink.count(fnv(&built.bytes[..built.bytes.len().min(1 << 16)]) ^ (nframes as u64), true);
				sink.sample(|| json!({"version": [maj, min, patch], "frames": nframes, "occ": occ, "file_len": built.bytes.len(),
					"fields_checked": l.pre.fields.len() + l.post.fields.len() + l.start.fields.len() + l.end.fields.len() + l.item.fields.len()}));
				let ctx = Ctx::new(&db, &beh, &built);
				let mut viols = vec![];
				ctx.c03_fields(nframes <= 1024, with_rows && nframes <= 1024, &mut viols);
				for v in viols.iter_mut() {
					v.class = format!("version:{}.{},{}", maj, min, v.class);
				}
				for v in &viols {
					sink.report(v, &|| {
						let mut small_built = built.clone();
						if small_built.bytes.len() > 1 << 20 {
							small_built.bytes.truncate(1 << 20);
						}
						checks::replay_record(&simple_beh(reg, &occ, 2, 1), &small_built, o.seed, 0)
					});
				}
			});
		}
	});
	sink.summary(json!({"versions": work.iter().filter(|w| w.2 == small).count(), "walk16_classes": work.iter().filter(|w| w.2 == big).count()}));
}
