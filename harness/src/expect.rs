//! What the specification predicts the columns to be: the final parser state of the TLA+ model
//! (tokens per cell) combined with the concrete bytes of each token and the TLA+ layout.

use std::collections::BTreeMap;

use crate::cols::Cols;
use crate::gen::{get_be, AFin, Built};
use crate::layout::{LayoutDb, StructL};

#[derive(Debug, Clone)]
pub struct ECol {
	pub ty: String,
	/// None = don't care (cell of an absent character)
	pub vals: Vec<Option<u64>>,
}

#[derive(Debug, Clone, Default)]
pub struct ECols {
	pub leaves: BTreeMap<String, ECol>,
	pub present: BTreeMap<String, Vec<bool>>,
	pub item_off: Option<Vec<i64>>,
}

fn add_struct(out: &mut ECols, pfx: &str, st: &StructL, toks: &[usize], bufs: &[Vec<u8>]) {
	for f in &st.fields {
		let vals = toks
			.iter()
			.map(|t| {
				if *t == 0 {
					None
				} else {
					Some(get_be(&bufs[*t - 1], f.off, f.w))
				}
			})
			.collect();
		out.leaves.insert(
			format!("{}{}", pfx, f.n),
			ECol {
				ty: f.t.clone(),
				vals,
			},
		);
	}
}

/// Expected columns for the first `nrows` rows of the final state (`nrows = fin.ids.len()` for all).
pub fn expected(db: &LayoutDb, occ: &[String], fin: &AFin, built: &Built) -> ECols {
	let l = db.for_version(built.ver[0], built.ver[1]);
	let mut out = ECols::default();
	out.leaves.insert(
		"id".into(),
		ECol {
			ty: "i32".into(),
			vals: fin.ids.iter().map(|i| Some(*i as u32 as u64)).collect(),
		},
	);
	for (pc, qc) in fin.pre.iter().zip(fin.post.iter()) {
		assert!(pc.p == qc.p && pc.f == qc.f);
		let who = if pc.f == 0 { "leader" } else { "follower" };
		let base = format!("ports.{}.{}", db.blocks.ports[pc.p as usize], who);
		add_struct(&mut out, &format!("{}.pre.", base), &l.pre, &pc.toks, &built.ev_bufs);
		add_struct(&mut out, &format!("{}.post.", base), &l.post, &qc.toks, &built.ev_bufs);
		out.present.insert(base, pc.toks.iter().map(|t| *t != 0).collect());
	}
	let _ = occ;
	if l.start.exists {
		add_struct(&mut out, "start.", &l.start, &fin.fstart, &built.ev_bufs);
	}
	if l.end.exists {
		add_struct(&mut out, "end.", &l.end, &fin.fend, &built.ev_bufs);
	}
	if l.item.exists {
		add_struct(&mut out, "item.", &l.item, &fin.items, &built.ev_bufs);
		out.item_off = Some(fin.off.iter().map(|x| *x as i64).collect());
	}
	out
}

pub struct CmpOpts {
	/// compare presence bits (the row view has none)
	pub presence: bool,
	/// compare only the first n rows of the expectation (None = all, and lengths must agree)
	pub rows: Option<usize>,
	/// columns re-assembled from row views do not exist when there is no row / no item to take
	/// them from: a missing column is then accepted iff the model expects it to be empty
	pub missing_ok_if_empty: bool,
}

/// Compares predicted and observed columns; returns a description of the first disagreement.
pub fn compare(exp: &ECols, act: &Cols, o: &CmpOpts) -> Option<String> {
	// same set of columns: a field is present exactly when its version gate says so
	let nitems_lim = match (o.rows, &exp.item_off) {
		(Some(n), Some(off)) => Some(off[n.min(off.len() - 1)] as usize),
		_ => None,
	};
	let want_len = |k: &str, e: &ECol| match o.rows {
		None => e.vals.len(),
		Some(n) => {
			if k.starts_with("item.") {
				nitems_lim.unwrap_or(0)
			} else {
				n
			}
		}
	};
	for (k, e) in &exp.leaves {
		if !act.leaves.contains_key(k) && !(o.missing_ok_if_empty && want_len(k, e) == 0) {
			return Some(format!("column {} missing", k));
		}
	}
	for k in act.leaves.keys() {
		if !exp.leaves.contains_key(k) {
			return Some(format!("column {} present but not in the layout of this version", k));
		}
	}
	for (k, e) in &exp.leaves {
		let a = match act.leaves.get(k) {
			Some(a) => a,
			None => continue,
		};
		if a.ty != e.ty {
			return Some(format!("column {}: type {} expected {}", k, a.ty, e.ty));
		}
		let lim = match o.rows {
			None => {
				if a.vals.len() != e.vals.len() {
					return Some(format!("column {}: {} entries, expected {}", k, a.vals.len(), e.vals.len()));
				}
				e.vals.len()
			}
			Some(n) => {
				let lim = if k.starts_with("item.") { nitems_lim.unwrap_or(0) } else { n };
				if a.vals.len() < lim {
					return Some(format!("column {}: {} entries, expected at least {}", k, a.vals.len(), lim));
				}
				lim
			}
		};
		for i in 0..lim {
			if let Some(v) = e.vals[i] {
				if a.vals[i] != v {
					return Some(format!("column {} row {}: {:#x}, expected {:#x}", k, i, a.vals[i], v));
				}
			}
		}
	}
	if o.presence {
		for (k, e) in &exp.present {
			match act.present.get(k) {
				None => return Some(format!("character {} missing", k)),
				Some(a) => {
					let lim = o.rows.unwrap_or(e.len());
					if o.rows.is_none() && a.len() != e.len() {
						return Some(format!("presence {}: {} entries, expected {}", k, a.len(), e.len()));
					}
					if a.len() < lim {
						return Some(format!("presence {}: {} entries, expected at least {}", k, a.len(), lim));
					}
					for i in 0..lim {
						if a[i] != e[i] {
							return Some(format!("presence {} row {}: {}, expected {}", k, i, a[i], e[i]));
						}
					}
				}
			}
		}
		for k in act.present.keys() {
			if !exp.present.contains_key(k) {
				return Some(format!("unexpected character {}", k));
			}
		}
	}
	match (&exp.item_off, &act.item_off) {
		(None, None) => {}
		(Some(e), Some(a)) => {
			let lim = o.rows.map(|n| n + 1).unwrap_or(e.len());
			if o.rows.is_none() && a.len() != e.len() {
				return Some(format!("item offsets: {:?}, expected {:?}", a, e));
			}
			if a.len() < lim || a[..lim] != e[..lim] {
				return Some(format!("item offsets: {:?}, expected prefix {:?}", a, &e[..lim.min(e.len())]));
			}
		}
		(Some(e), None) if o.missing_ok_if_empty && o.rows.map_or(e.len() <= 1, |n| n == 0) => {}
		(e, a) => return Some(format!("item offsets: {:?}, expected {:?}", a, e)),
	}
	None
}

/// Exact comparison of two observed column sets (e.g. in-memory vs exported).
pub fn same_cols(a: &Cols, b: &Cols, presence: bool) -> Option<String> {
	for k in a.leaves.keys() {
		if !b.leaves.contains_key(k) {
			return Some(format!("column {} missing on the right", k));
		}
	}
	for k in b.leaves.keys() {
		if !a.leaves.contains_key(k) {
			return Some(format!("column {} missing on the left", k));
		}
	}
	for (k, x) in &a.leaves {
		let y = &b.leaves[k];
		if x != y {
			return Some(format!("column {} differs", k));
		}
	}
	if presence && a.present != b.present {
		return Some("presence bits differ".into());
	}
	if a.item_off != b.item_off {
		return Some("item offsets differ".into());
	}
	None
}

fn width_of(ty: &str) -> usize {
	match ty {
		"u8" | "i8" => 1,
		"u16" | "i16" => 2,
		_ => 4,
	}
}

/// The cell a leaf belongs to: the character's pre or post struct, or the start / end / item struct.
fn cell_of(path: &str) -> Option<&str> {
	for m in [".pre.", ".post."] {
		if let Some(i) = path.find(m) {
			return Some(&path[..i + m.len()]);
		}
	}
	for m in ["start.", "end.", "item."] {
		if path.starts_with(m) {
			return Some(&path[..m.len()]);
		}
	}
	None
}

/// C04's placement relation: every cell (row x character x pre|post, start, end, item) holds the
/// payload of the event the model puts there -- compared as the multiset of the cell's bytes, so
/// that a mix-up of fields INSIDE a cell (C03's business) is not reported here, while a value in
/// the wrong row, port, character or struct is.  Frame ids, presence bits and item offsets are
/// compared directly.
pub fn compare_cells(exp: &ECols, act: &Cols, rows: Option<usize>) -> Option<String> {
	use std::collections::BTreeMap;
	let nitems_lim = match (rows, &exp.item_off) {
		(Some(n), Some(off)) => Some(off[n.min(off.len() - 1)] as usize),
		_ => None,
	};
	// ids
	{
		let e = &exp.leaves["id"];
		let a = match act.leaves.get("id") {
			Some(a) => a,
			None => return Some("id column missing".into()),
		};
		let lim = rows.unwrap_or(e.vals.len());
		if rows.is_none() && a.vals.len() != e.vals.len() {
			return Some(format!("{} frame rows, expected {}", a.vals.len(), e.vals.len()));
		}
		if a.vals.len() < lim {
			return Some(format!("{} frame rows, expected at least {}", a.vals.len(), lim));
		}
		for i in 0..lim {
			if Some(a.vals[i]) != e.vals[i] {
				return Some(format!("row {}: frame id {:#x}, expected {:#x}", i, a.vals[i], e.vals[i].unwrap()));
			}
		}
	}
	// group leaves by cell
	let mut ecells: BTreeMap<&str, Vec<(&String, &ECol)>> = BTreeMap::new();
	for (k, e) in &exp.leaves {
		if let Some(c) = cell_of(k) {
			ecells.entry(c).or_default().push((k, e));
		}
	}
	let mut acells: BTreeMap<&str, Vec<(&String, &crate::cols::Col)>> = BTreeMap::new();
	for (k, a) in &act.leaves {
		if let Some(c) = cell_of(k) {
			acells.entry(c).or_default().push((k, a));
		}
	}
	for (cell, es) in &ecells {
		let asv = match acells.get(cell) {
			Some(v) => v,
			None => return Some(format!("no columns for {}", cell)),
		};
		let elen = es[0].1.vals.len();
		let lim = match rows {
			None => elen,
			Some(n) => {
				if cell.starts_with("item.") {
					nitems_lim.unwrap_or(0)
				} else {
					n
				}
			}
		};
		for (k, a) in asv {
			if rows.is_none() && a.vals.len() != elen {
				return Some(format!("column {}: {} entries, expected {}", k, a.vals.len(), elen));
			}
			if a.vals.len() < lim {
				return Some(format!("column {}: {} entries, expected at least {}", k, a.vals.len(), lim));
			}
		}
		for i in 0..lim {
			if es.iter().any(|(_, e)| e.vals[i].is_none()) {
				continue; // absent character: don't care
			}
			let mut eb: Vec<u8> = vec![];
			for (_, e) in es {
				let w = width_of(&e.ty);
				let v = e.vals[i].unwrap();
				for j in 0..w {
					eb.push((v >> (8 * j)) as u8);
				}
			}
			let mut ab: Vec<u8> = vec![];
			for (_, a) in asv {
				let w = width_of(&a.ty);
				for j in 0..w {
					ab.push((a.vals[i] >> (8 * j)) as u8);
				}
			}
			eb.sort();
			ab.sort();
			if eb != ab {
				return Some(format!("cell {} row {}: holds other data than the event the history puts there", cell, i));
			}
		}
	}
	for cell in acells.keys() {
		if !ecells.contains_key(cell) {
			return Some(format!("unexpected columns {}", cell));
		}
	}
	// a frame-end struct without value columns still has one entry per frame row (the number of Frame End
	// events seen so far = offsets - 1)
	if let (Some(n), Some(off)) = (act.aux_len.get("end"), &exp.item_off) {
		let want = match rows {
			None => off.len() - 1,
			Some(r) => r,
		};
		if (rows.is_none() && *n != want) || *n < want {
			return Some(format!("end column: {} entries, expected {}", n, want));
		}
	}
	// presence and item offsets: as in `compare`
	let dummy = ECols {
		leaves: Default::default(),
		present: exp.present.clone(),
		item_off: exp.item_off.clone(),
	};
	let adummy = Cols {
		leaves: Default::default(),
		present: act.present.clone(),
		item_off: act.item_off.clone(),
		aux_len: Default::default(),
	};
	compare(&dummy, &adummy, &CmpOpts { presence: true, rows, missing_ok_if_empty: false })
}

/// Exact comparison of the first `n` rows of `b` against `a` restricted likewise (real vs real).
pub fn same_prefix(a: &Cols, b: &Cols, n: usize, presence: bool) -> Option<String> {
	same_cols(&crate::cols::prefix(a, n), &crate::cols::prefix(b, n), presence)
}
