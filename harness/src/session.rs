//! Histories of API calls on one thread (spec/Session.tla): every call of a TLC-exported history
//! is made in order on one fresh thread, and each result is compared with the result of the same
//! call made first thing on a thread of its own.

use std::collections::HashMap;
use std::io::Cursor;

use peppi::game::Game as GameTrait;
use peppi::io::slippi;
use serde_json::json;

use crate::checks::viol;
use crate::cols::{self, Cols};
use crate::fields::simple_beh_gecko;
use crate::gen::{self, Built, GenOpts};
use crate::layout::LayoutDb;
use crate::real::{self, Comp};
use crate::util::{fnv, guard, Outcome};
use crate::{Args, Sink};

#[derive(Clone, Debug, PartialEq)]
struct GameD {
	start: String,
	end: String,
	meta: String,
	gecko: String,
	hash: Option<String>,
	quirk: bool,
	cols: Cols,
}

#[derive(Clone, Debug, PartialEq)]
enum Res {
	Bytes(Vec<u8>),
	Game(Box<GameD>),
	Rows(usize, Box<Cols>),
	Err,
	Unit,
	/// panic, abort: never equal to anything the fresh call returned unless that one did the same
	Other(String),
}

impl Res {
	fn brief(&self) -> String {
		match self {
			Res::Bytes(b) => format!("{} bytes (fnv {:x})", b.len(), fnv(b)),
			Res::Game(g) => format!("game with {} rows, hash {:?}", g.cols.leaves.get("id").map_or(0, |c| c.vals.len()), g.hash),
			Res::Rows(n, _) => format!("{} rows", n),
			Res::Err => "error".into(),
			Res::Unit => "()".into(),
			Res::Other(s) => s.clone(),
		}
	}
}

fn digest(g: &peppi::game::immutable::Game) -> GameD {
	GameD {
		start: format!("{:?}|{:?}", g.start, g.start.bytes),
		end: format!("{:?}", g.end),
		meta: format!("{:?}", g.metadata),
		gecko: format!("{:?}", g.gecko_codes),
		hash: g.hash.clone(),
		quirk: g.quirks.map_or(false, |q| q.double_game_end),
		cols: cols::from_immutable(&g.frames),
	}
}

fn of_game(o: Outcome<peppi::game::immutable::Game>) -> Res {
	match o {
		Outcome::Ok(g) => Res::Game(Box::new(digest(&g))),
		Outcome::Err(_) => Res::Err,
		o => Res::Other(format!("{}: {}", o.kind(), o.detail())),
	}
}

fn of_bytes(o: Outcome<Vec<u8>>) -> Res {
	match o {
		Outcome::Ok(b) => Res::Bytes(b),
		Outcome::Err(_) => Res::Err,
		o => Res::Other(format!("{}: {}", o.kind(), o.detail())),
	}
}

/// One replay of the pool with everything the calls need prepared up front (on a thread of its own).
struct Item {
	built: Built,
	comp: Comp,
	arch: Vec<u8>,
	bad: Vec<u8>,
	slp_cut: usize,
	slpp_cut: usize,
}

struct Open<'a> {
	item: &'a Item,
	r: Cursor<&'a [u8]>,
	st: slippi::de::ParseState,
	fed: usize,
	events: usize,
}

fn feed(o: &mut Open, upto: usize) -> Result<(), String> {
	while o.events < upto {
		slippi::de::parse_event(&mut o.r, &mut o.st, None).map_err(|e| format!("{}", e))?;
		o.events += 1;
	}
	Ok(())
}

fn exec<'a>(kind: &str, it: &'a Item, open: &mut Option<Open<'a>>) -> Res {
	let b = &it.built.bytes;
	match kind {
		"read_slp" => of_game(real::read_slp_noopts(b)),
		"read_slp_hash" => of_game(real::read_slp(b, false, true)),
		"read_slp_skip" => of_game(real::read_slp(b, true, false)),
		"read_slp_cut" => of_game(real::read_slp_noopts(&b[..it.slp_cut])),
		"read_slp_bad" => of_game(real::read_slp_noopts(&it.bad)),
		"write_slp" | "write_slp_fail" | "write_slpp" | "write_slpp_fail_early" | "write_slpp_fail_late" => {
			// the game object is obtained by a read (with the hash, which the archive then stores)
			let g = match real::read_slp(b, false, true) {
				Outcome::Ok(g) => g,
				o => return Res::Other(format!("read before write: {} {}", o.kind(), o.detail())),
			};
			match kind {
				"write_slp" => of_bytes(real::write_slp(&g)),
				"write_slp_fail" => {
					// the sink fails inside the frame data, or (every other replay) inside the last 20 bytes: the metadata
					let limit = if b.len() % 2 == 0 { b.len() * 2 / 3 } else { b.len() - 20 };
					match guard(|| slippi::write(&mut real::FailWriter { limit, written: 0 }, &g)) {
						Outcome::Ok(_) => Res::Other("a write into a failing sink succeeded".into()),
						Outcome::Err(_) => Res::Err,
						o => Res::Other(format!("{}: {}", o.kind(), o.detail())),
					}
				}
				"write_slpp" => of_bytes(real::write_slpp(g, it.comp)),
				_ => {
					// early: inside the first entries; late: inside the frame data, or (every other replay) one byte short
					let limit = if kind == "write_slpp_fail_early" { 700 } else if b.len() % 2 == 0 { it.arch.len().saturating_sub(1500) } else { it.arch.len().saturating_sub(1) };
					match real::fail_write_slpp_outcome(g, it.comp, limit) {
						Outcome::Err(_) => Res::Err,
						Outcome::Ok(n) => Res::Other(format!("a write into a sink that fails after {} bytes reported success ({} bytes taken)", limit, n)),
						o => Res::Other(format!("{}: {}", o.kind(), o.detail())),
					}
				}
			}
		}
		"arrow_roundtrip" => {
			// frames -> Arrow struct array (schema of this version and these ports) -> frames -> .slp bytes
			let g = match real::read_slp_noopts(b) {
				Outcome::Ok(g) => g,
				o => return Res::Other(format!("read before export: {} {}", o.kind(), o.detail())),
			};
			let ver = g.start.slippi.version;
			let occ = peppi::game::port_occupancy(&g.start);
			let res = crate::util::guard_plain(|| {
				let peppi::game::immutable::Game { start, end, frames, metadata, gecko_codes, hash, quirks } = g;
				let arr = frames.into_struct_array(ver, &occ);
				let back = peppi::frame::immutable::Frame::from_struct_array(arr, ver);
				let g2 = peppi::game::immutable::Game { start, end, frames: back, metadata, gecko_codes, hash, quirks };
				real::write_slp(&g2)
			});
			match res {
				Outcome::Ok(o) => of_bytes(o),
				o => Res::Other(format!("{}: {}", o.kind(), o.detail())),
			}
		}
		"read_slpp" => of_game(real::read_slpp(&it.arch, false)),
		"read_slpp_skip" => of_game(real::read_slpp(&it.arch, true)),
		"read_slpp_cut" => of_game(real::read_slpp(&it.arch[..it.slpp_cut.min(it.arch.len())], false)),
		"inc_begin" => {
			let mut r = Cursor::new(&b[..]);
			let res = guard(|| -> peppi::io::Result<slippi::de::ParseState> {
				slippi::de::parse_header(&mut r, None)?;
				slippi::de::parse_start(&mut r, None)
			});
			match res {
				Outcome::Ok(st) => {
					*open = Some(Open { item: it, r, st, fed: 0, events: 0 });
					Res::Unit
				}
				o => Res::Other(format!("{}: {}", o.kind(), o.detail())),
			}
		}
		"inc_feed" => {
			let o = match open.as_mut() {
				Some(o) => o,
				None => return Res::Other("no open parse (its beginning failed)".into()),
			};
			o.fed += 1;
			let upto = o.item.built.ev_offs.len() * o.fed / 3;
			match guard(|| feed(o, upto)) {
				Outcome::Ok(()) => Res::Rows(o.st.frames().len(), Box::new(cols::from_mutable(o.st.frames()))),
				x => Res::Other(format!("{}: {}", x.kind(), x.detail())),
			}
		}
		"inc_finish" => {
			let mut o = match open.take() {
				Some(o) => o,
				None => return Res::Other("no open parse (its beginning failed)".into()),
			};
			let n = o.item.built.ev_offs.len();
			let res = guard(|| -> Result<(), String> {
				feed(&mut o, n)?;
				use std::io::Read;
				let mut b1 = [0u8; 1];
				o.r.read_exact(&mut b1).map_err(|e| e.to_string())?;
				if b1[0] == 0x55 {
					slippi::de::parse_metadata(&mut o.r, &mut o.st, None).map_err(|e| e.to_string())?;
				}
				Ok(())
			});
			match res {
				Outcome::Ok(()) => Res::Game(Box::new(GameD {
					start: format!("{:?}|{:?}", GameTrait::start(&o.st), GameTrait::start(&o.st).bytes),
					end: format!("{:?}", GameTrait::end(&o.st)),
					meta: format!("{:?}", GameTrait::metadata(&o.st)),
					gecko: format!("{:?}", GameTrait::gecko_codes(&o.st)),
					hash: None,
					quirk: false,
					cols: cols::from_mutable(o.st.frames()),
				})),
				x => Res::Other(format!("{}: {}", x.kind(), x.detail())),
			}
		}
		"inc_drop" => {
			*open = None;
			Res::Unit
		}
		k => panic!("unknown call kind {}", k),
	}
}

/// Is `got` the result the fresh call gave?  (The finished incremental game is compared with the
/// one-shot game: columns by name and value, presence included.)
fn same(kind: &str, got: &Res, fresh: &Res) -> Option<String> {
	match (got, fresh) {
		(Res::Game(a), Res::Game(b)) if kind == "inc_finish" => {
			if a.start != b.start || a.end != b.end || a.meta != b.meta || a.gecko != b.gecko {
				return Some("start / end / metadata / gecko codes differ".into());
			}
			crate::expect::same_cols(&b.cols, &a.cols, true)
		}
		(Res::Game(a), Res::Game(b)) => {
			if a == b {
				None
			} else if a.cols != b.cols {
				Some(crate::expect::same_cols(&b.cols, &a.cols, true).unwrap_or_else(|| "frame columns differ".into()))
			} else {
				Some(format!("game differs outside the frames (hash {:?} vs {:?}, quirk {} vs {})", a.hash, b.hash, a.quirk, b.quirk))
			}
		}
		(a, b) => {
			if a == b {
				None
			} else {
				Some(format!("{} instead of {}", a.brief(), b.brief()))
			}
		}
	}
}

fn on_new_thread<T: Send>(f: impl FnOnce() -> T + Send) -> T {
	std::thread::scope(|s| std::thread::Builder::new().stack_size(16 << 20).spawn_scoped(s, f).expect("spawn").join().expect("join"))
}

pub fn cmd_session(a: &Args) {
	let db = LayoutDb::load(a.req("layout"));
	let sink = Sink::new(a.get("replay-dir").unwrap_or("work/replays"));
	let seed = a.num("seed", 1);
	let threads = a.num("threads", 8) as usize;
	// the calls whose results this run decides (all calls are made; the others are only history)
	let report: Option<Vec<String>> = a.get("report").map(|s| s.split(',').map(|x| x.to_string()).collect());
	let reported = |k: &str| report.as_ref().map_or(true, |r| r.iter().any(|x| x == k));
	// the pool of replays (all finished: Game End present)
	// (pairs of the same version with different ports, and of the same ports with different versions, occur:
	// anything the library might remember between calls keyed by too little shows up)
	let shapes: Vec<(&str, [u8; 3], Vec<&str>, usize, usize, usize)> = vec![
		("C", [3, 16, 0], vec!["ic", "none", "single", "none"], 4, 1, 2),
		("C", [3, 16, 0], vec!["single", "single", "single", "ic"], 3, 2, 1),
		("A", [1, 0, 0], vec!["single", "single", "none", "none"], 3, 0, 0),
		("A", [1, 0, 0], vec!["none", "single", "none", "ic"], 2, 0, 0),
		("B", [2, 2, 0], vec!["none", "none", "none", "single"], 5, 0, 0),
		("C", [3, 7, 0], vec!["ic", "none", "single", "none"], 2, 2, 1),
		("C", [3, 0, 0], vec!["none", "ic", "none", "none"], 0, 0, 0),
		("A", [0, 1, 0], vec!["single", "single", "none", "none"], 6, 0, 0),
		("C", [3, 16, 0], vec!["none", "single", "single", "none"], 2, 1, 0),
		("C", [3, 16, 0], vec!["single", "none", "none", "none"], 2, 0, 0),
	];
	let pool: Vec<Item> = shapes
		.iter()
		.enumerate()
		.map(|(i, (reg, ver, occ, nf, ni, ng))| {
			let mut beh = simple_beh_gecko(reg, occ, *nf, *ni, *ng);
			beh.meta = if i % 2 == 0 { "some".into() } else { "none".into() };
			let built = gen::build_beh(&db, &beh, &GenOpts::new(seed ^ (0x5E55 + i as u64), *ver));
			on_new_thread(|| {
				let comp = Comp::all()[i % 3];
				// (a pool replay the code under test rejects is reported below: the fresh results are errors then)
				let arch = match real::read_slp(&built.bytes, false, true) {
					Outcome::Ok(g) => real::write_slpp(g, comp).ok().unwrap_or_default(),
					_ => vec![],
				};
				// an undeclared command byte in place of the last event before Game End, or of Game End itself
				let mut bad = built.bytes.clone();
				let k = built.ev_offs.len().saturating_sub(2);
				bad[built.ev_offs[k]] = 0x01;
				// cut points: inside the last third of the events; inside the Arrow data
				let slp_cut = built.ev_offs[built.ev_offs.len() * 2 / 3] + 1;
				let slpp_cut = crate::tarx::walk(&arch)
					.ok()
					.and_then(|es| es.iter().find(|e| e.name == "frames.arrow").map(|fa| fa.data_off + if i % 2 == 0 { 100 } else { fa.size / 3 }))
					.unwrap_or(0);
				Item { built: built.clone(), comp, arch, bad, slp_cut, slpp_cut }
			})
		})
		.collect();
	// what each call returns on a fresh thread
	let kinds = [
		"read_slp", "read_slp_hash", "read_slp_skip", "read_slp_cut", "read_slp_bad", "write_slp", "write_slp_fail", "write_slpp",
		"write_slpp_fail_early", "write_slpp_fail_late", "read_slpp", "read_slpp_skip", "read_slpp_cut", "arrow_roundtrip", "inc_finish",
	];
	let mut fresh: HashMap<(usize, String), Res> = HashMap::new();
	for (i, it) in pool.iter().enumerate() {
		for k in kinds {
			let r = on_new_thread(|| {
				let mut open = None;
				if k == "inc_finish" {
					exec("inc_begin", it, &mut open);
				}
				exec(k, it, &mut open)
			});
			fresh.insert((i, k.to_string()), r);
		}
		for fed in 1..=2usize {
			let r = on_new_thread(|| {
				let mut open = None;
				exec("inc_begin", it, &mut open);
				let mut r = Res::Unit;
				for _ in 0..fed {
					r = exec("inc_feed", it, &mut open);
				}
				r
			});
			fresh.insert((i, format!("inc_feed{}", fed)), r);
		}
		// what the model says about the fresh results themselves
		let cls = format!("pool:{}", i);
		let chk_k = |k: &str, cond: bool, what: &str| {
			if !cond && reported(k) {
				sink.report(&viol("session_fresh", &cls, "mismatch", what.to_string()), &|| json!({"ver": it.built.ver, "slp_hex": crate::util::hex(&it.built.bytes)}));
			}
		};
		let f = |k: &str| &fresh[&(i, k.to_string())];
		let chk = |cond: bool, what: &str| chk_k("read_slpp", cond, what);
		for k in ["read_slp_cut", "read_slp_bad", "read_slpp_cut", "write_slp_fail", "write_slpp_fail_early", "write_slpp_fail_late"] {
			chk_k(k, *f(k) == Res::Err, &format!("{} on a fresh thread: {} (the model: an error)", k, f(k).brief()));
		}
		chk_k("write_slp", *f("write_slp") == Res::Bytes(it.built.bytes.clone()), "write_slp on a fresh thread does not reproduce the file");
		chk_k("arrow_roundtrip", *f("arrow_roundtrip") == Res::Bytes(it.built.bytes.clone()), "frames -> Arrow -> frames on a fresh thread does not serialise to the file");
		match (f("read_slpp"), f("read_slp_hash")) {
			(Res::Game(a), Res::Game(b)) => {
				chk(a.start == b.start && a.end == b.end && a.meta == b.meta && a.gecko == b.gecko && a.hash == b.hash && a.quirk == b.quirk, "read_slpp differs from read_slp with the hash outside the frames");
				chk(crate::expect::same_cols(&b.cols, &a.cols, true).is_none(), "read_slpp differs from read_slp in the frames");
			}
			_ => chk(false, "read_slpp or read_slp failed on a fresh thread"),
		}
		chk_k("inc_finish", same("inc_finish", f("inc_finish"), f("read_slp")).is_none(), "the finished incremental parse differs from the one-shot game");
		if let (Res::Game(a), Res::Game(b), Res::Game(c)) = (f("read_slp_skip"), f("read_slpp_skip"), f("read_slp")) {
			chk_k("read_slp_skip", a.start == b.start && a.end == b.end && a.meta == b.meta, "the two skip routes disagree");
			chk_k("read_slp_skip", a.start == c.start && a.end == c.end && a.meta == c.meta, "skip read differs from the full read in start / end / metadata");
			chk_k("read_slp_skip", a.cols.leaves.get("id").map_or(0, |c| c.vals.len()) == 0, "skip read has frames");
		} else {
			chk_k("read_slp_skip", false, "a skip read or the full read failed on a fresh thread");
		}
	}
	let n = pool.len();
	let mut total = 0;
	for path in a.req("in").split(',') {
		total += crate::for_each_tagged(path, "SESSION", threads, a.num("stride", 1) as usize, usize::MAX, |idx, v| {
			// (kind, game name, thread)
			let calls: Vec<(String, String, usize)> = v["calls"]
				.as_array()
				.expect("calls")
				.iter()
				.map(|c| (c[0].as_str().unwrap().to_string(), c[1].as_str().unwrap().to_string(), c.get(2).and_then(|t| t.as_u64()).unwrap_or(1) as usize))
				.collect();
			let nthreads = calls.iter().map(|c| c.2).max().unwrap_or(1);
			// with a pair rotating through the pool, and with a pair of the same version and different ports
			let rot = (idx % n, (idx % n + 1 + (idx / n) % (n - 1)) % n);
			for (g1, g2) in [rot, [(0usize, 1usize), (1, 0), (2, 3), (3, 2), (0, 8), (8, 0), (9, 8), (8, 1), (1, 9), (9, 0)][idx % 10]] {
				let text: Vec<String> = calls.iter().map(|(k, g, t)| if nthreads > 1 { format!("t{}:{}({})", t, k, g) } else { format!("{}({})", k, g) }).collect();
				sink.count(fnv(format!("{:?}{}{}", text, g1, g2).as_bytes()), calls.iter().any(|(k, _, _)| k.contains("fail") || k.contains("cut") || k.contains("bad") || k == "inc_drop"));
				sink.sample(|| json!({"calls": text, "pool": [g1, g2]}));
				// every model thread is a new OS thread; "ordered": the calls are made one after the other in the
				// model's order; "free" (several threads only): each thread makes its own calls, all at once
				for mode in if nthreads > 1 { vec!["ordered", "free"] } else { vec!["ordered"] } {
					let results = run_history(&pool, &calls, g1, g2, nthreads, mode == "free");
					let mut found: Option<(usize, String)> = None;
					for (j, gi, key, r) in results {
						let k = calls[j].0.as_str();
						let want = match k {
							"inc_begin" | "inc_drop" => Res::Unit,
							_ => fresh[&(gi, key)].clone(),
						};
						if let Some(d) = same(k, &r, &want) {
							if reported(k) && found.as_ref().map_or(true, |f| j < f.0) {
								found = Some((j, d));
							}
						}
					}
					if let Some((j, d)) = found {
						let kind = if d.contains("panic") { "panic" } else { "mismatch" };
						sink.report(
							&viol(
								"session_history",
								&format!("call:{},after:{}{}", calls[j].0, if j > 0 { calls[j - 1].0.as_str() } else { "nothing" }, if nthreads > 1 { format!(",threads:{}", mode) } else { String::new() }),
								kind,
								format!("history {:?} (pool {} {}): call {} differs from the same call on a fresh thread: {}", text, g1, g2, j + 1, d),
							),
							&|| json!({"calls": text, "pool": [g1, g2], "mode": mode, "slp_hex": [crate::util::hex(&pool[g1].built.bytes), crate::util::hex(&pool[g2].built.bytes)]}),
						);
						break;
					}
				}
			}
		});
	}
	sink.summary(json!({"histories": total, "pool": n}));
}

/// Makes the calls of a history against the real code, one new OS thread per model thread.  Returns, per call,
/// (index, pool game used, key of the fresh result to compare with, result).
fn run_history(pool: &[Item], calls: &[(String, String, usize)], g1: usize, g2: usize, nthreads: usize, free: bool) -> Vec<(usize, usize, String, Res)> {
	use std::sync::mpsc;
	let barrier = std::sync::Barrier::new(nthreads + 1);
	let (res_tx, res_rx) = mpsc::channel::<(usize, usize, String, Res)>();
	let mut out = vec![];
	std::thread::scope(|s| {
		let mut txs: Vec<mpsc::Sender<usize>> = vec![];
		for _ in 0..nthreads {
			let (tx, rx) = mpsc::channel::<usize>();
			txs.push(tx);
			let res_tx = res_tx.clone();
			let barrier = &barrier;
			std::thread::Builder::new()
				.stack_size(16 << 20)
				.spawn_scoped(s, move || {
					let mut open: Option<Open> = None;
					let mut open_game = 0usize;
					barrier.wait();
					while let Ok(j) = rx.recv() {
						let (k, gname, _) = &calls[j];
						let named = if gname == "g1" { g1 } else { g2 };
						let gi = if k == "inc_begin" || !k.starts_with("inc_") { named } else { open_game };
						if k == "inc_begin" {
							open_game = gi;
						}
						let fed_before = open.as_ref().map_or(0, |o| o.fed);
						let r = exec(k, &pool[gi], &mut open);
						let key = match k.as_str() {
							"inc_feed" => format!("inc_feed{}", fed_before + 1),
							_ => k.clone(),
						};
						if res_tx.send((j, gi, key, r)).is_err() {
							return;
						}
					}
				})
				.expect("spawn");
		}
		if free {
			for (j, c) in calls.iter().enumerate() {
				txs[c.2 - 1].send(j).ok();
			}
			barrier.wait();
			for _ in 0..calls.len() {
				out.push(res_rx.recv().expect("worker result"));
			}
		} else {
			barrier.wait();
			for (j, c) in calls.iter().enumerate() {
				txs[c.2 - 1].send(j).ok();
				out.push(res_rx.recv().expect("worker result"));
			}
		}
		drop(txs);
	});
	out
}
