//! Checks that quantify over schedules (C11, C12), crash points (C07) and the skip option (C10).

use std::sync::mpsc;
use std::time::Duration;

use serde::Deserialize;
use serde_json::json;

use peppi::game::immutable::Game;
use peppi::io::slippi;

use crate::checks::{shape_class, viol, Viol};
use crate::fields::simple_beh;
use crate::gen::{self, Beh, Built, GenOpts};
use crate::layout::LayoutDb;
use crate::real::{self, Comp};
use crate::stream::{Frag, FragReader};
use crate::util::{first_diff, fnv, guard, Outcome};
use crate::{Args, Sink};

#[derive(Deserialize, Debug, Clone)]
struct CutClass {
	seg: String,
	idx: usize,
	r#where: String,
}

#[derive(Deserialize, Debug, Clone)]
struct Sched {
	skip: bool,
	hash: bool,
	chunks: Vec<usize>,
	cut: CutClass,
	outcome: String,
	nframe_ev: usize,
	dup: bool,
	meta: bool,
	/// the header declares raw length 0 (a replay still being recorded)
	#[serde(default)]
	in_progress: bool,
}

pub fn read_frag(bytes: &[u8], frag: Frag, skip: bool, hash: bool, fail_at: Option<usize>) -> (Outcome<Game>, usize, usize) {
	let opts = slippi::de::Opts {
		skip_frames: skip,
		compute_hash: hash,
		debug: None,
		..Default::default()
	};
	let mut r = FragReader::new(bytes, frag);
	r.fail_at = fail_at;
	let o = guard(|| slippi::read(&mut r, Some(&opts)));
	(o, r.seeks, r.calls())
}

/// `read_frag` on the first `len` bytes of `bytes`, on a watchdog thread: None = did not return in time.
pub fn read_frag_guarded(
	dog: &mut Watchdog,
	deadline: Duration,
	bytes: &std::sync::Arc<Vec<u8>>,
	len: usize,
	frag: Frag,
	skip: bool,
	hash: bool,
	fail_at: Option<usize>,
) -> Option<(Outcome<Game>, usize, usize)> {
	let b = bytes.clone();
	dog.run(deadline, move || read_frag(&b[..len], frag, skip, hash, fail_at))
}

pub fn xxh3_hex(bytes: &[u8]) -> String {
	format!("xxh3:{:016x}", xxhash_rust::xxh3::xxh3_64(bytes))
}

fn shaped_beh(reg: &str, nframes: usize, dup: bool, meta: bool, i: usize) -> Beh {
	let occ: Vec<&str> = match i % 3 {
		0 => vec!["single", "none", "none", "none"],
		1 => vec!["ic", "none", "single", "none"],
		_ => vec!["none", "single", "none", "single"],
	};
	let mut beh = simple_beh(reg, &occ, nframes, 1);
	beh.file_end = if dup { "double".into() } else { "single".into() };
	beh.fin.quirk = dup;
	beh.meta = if meta { "some".into() } else { "none".into() };
	beh
}

/// Real segment boundaries [start, end) of a concretised file, by the model's segment names.
fn real_segment(built: &Built, beh: &Beh, seg: &str, idx: usize, nframe_ev: usize) -> (usize, usize) {
	let len = built.bytes.len();
	let table_end = built.events_start - 1 - built.start_block.len();
	let gend = beh.hist.iter().position(|e| e.k == "ge").unwrap();
	match seg {
		"header" => (0, built.raw_start),
		"table" => (built.raw_start, table_end),
		"start" => (table_end, built.events_start),
		"frame_event" => {
			// the model's j-th frame event stands for a real frame event at the same relative position
			let j = idx - 4;
			let nreal = gend; // events before Game End
			let k = if nframe_ev == 0 { 0 } else { j * nreal / nframe_ev };
			(built.ev_offs[k], built.ev_offs[k + 1])
		}
		"game_end" => (built.ev_offs[gend], built.ev_offs[gend] + built.ev_bufs[gend].len()),
		"dup_game_end" => {
			let k = built.ev_offs.len() - 1;
			(built.ev_offs[k], built.raw_end)
		}
		"meta_key" => (built.raw_end, built.raw_end + 11),
		"meta_body" => (built.raw_end + 11, len - 1),
		"close" => (len - 1, len),
		_ => panic!("segment {}", seg),
	}
}

fn version_for(db: &LayoutDb, reg: &str, i: usize, seed: u64) -> [u8; 3] {
	let vs = db.versions_of_regime(reg);
	let (a, b) = vs[(i.wrapping_mul(31).wrapping_add(seed as usize)) % vs.len()];
	let max = db.blocks.max_supported;
	[a, b, if (a, b) == (max[0], max[1]) { 0 } else { (i % 251) as u8 }]
}

/// One read under a schedule / cut, against the model's predicted outcome.
fn check_sched(db: &LayoutDb, s: &Sched, idx: usize, seed: u64, sink: &Sink) {
	for (ri, reg) in ["A", "B", "C"].iter().enumerate() {
		let beh = shaped_beh(reg, s.nframe_ev, s.dup, s.meta, idx + ri);
		let ver = version_for(db, reg, idx + ri, seed);
		let mut o = GenOpts::new(seed ^ ((idx as u64) << 8) ^ ri as u64, ver);
		o.plan = 1;
		o.raw_len_zero = s.in_progress;
		let built = gen::build_beh(db, &beh, &o);
		let cls = format!("{},skip={},hash={}{}", shape_class(&beh), s.skip, s.hash, if s.in_progress { ",in_progress" } else { "" });
		let mut viols: Vec<Viol> = vec![];
		let data: &[u8] = if s.cut.r#where == "intact" {
			&built.bytes
		} else {
			let (a, b) = real_segment(&built, &beh, &s.cut.seg, s.cut.idx, s.nframe_ev);
			let at = match s.cut.r#where.as_str() {
				"start" => a,
				"last_byte_missing" => b - 1,
				_ => a + ((b - a) / 2).max(1).min(b - a - 1),
			};
			&built.bytes[..at]
		};
		sink.count(fnv(data) ^ fnv(format!("{:?}{}{}", s.chunks, s.skip, s.hash).as_bytes()), !s.chunks.is_empty());
		sink.sample(|| json!({"chunks": s.chunks, "skip": s.skip, "hash": s.hash, "cut": {"seg": s.cut.seg, "where": s.cut.r#where}, "model_outcome": s.outcome, "version": ver, "file_len": built.bytes.len(), "given": data.len()}));
		if s.hash && s.cut.r#where == "intact" && idx % 3 == 0 {
			// history: a hashed read that fails (a truncated copy) on this thread just before the real one
			let _ = read_frag(&data[..data.len() * 2 / 3], Frag::Sched(s.chunks.clone()), s.skip, true, None);
		}
		let shared = std::sync::Arc::new(data.to_vec());
		let mut dog = Watchdog::new();
		let (res, seeks, _) = match read_frag_guarded(&mut dog, Duration::from_secs(20), &shared, data.len(), Frag::Sched(s.chunks.clone()), s.skip, s.hash, None) {
			Some(x) => x,
			None => {
				let v = viol("sched_read", &format!("{},segment:{},{}", cls, s.cut.seg, s.cut.r#where), "hang", format!("no return within 20 s (schedule {:?}, {} of {} bytes)", s.chunks, data.len(), built.bytes.len()));
				sink.report(&v, &|| json!({"sched": {"chunks": s.chunks, "skip": s.skip, "hash": s.hash}, "ver": ver, "bytes_hex": crate::util::hex(data)}));
				continue;
			}
		};
		match (&res, s.outcome.as_str()) {
			(Outcome::Ok(g), "ok") => {
				if s.hash {
					let want = xxh3_hex(&built.bytes);
					if g.hash.as_deref() != Some(want.as_str()) {
						viols.push(viol("hash_value", &cls, "mismatch", format!("hash {:?}, expected {} (schedule {:?})", g.hash, want, s.chunks)));
					}
					if seeks > 0 {
						viols.push(viol("hash_seek", &cls, "mismatch", "the stream was seeked while a hash was requested".into()));
					}
				} else if g.hash.is_some() {
					viols.push(viol("hash_value", &cls, "mismatch", format!("hash {:?} reported although not requested", g.hash)));
				}
				// the game does not depend on the schedule
				let (whole, _, _) = read_frag(&built.bytes, Frag::Whole, s.skip, s.hash, None);
				match whole {
					Outcome::Ok(w) => {
						let a = real::write_slp(g);
						let b = real::write_slp(&w);
						match (a, b) {
							(Outcome::Ok(a), Outcome::Ok(b)) => {
								if a != b {
									viols.push(viol("schedule_independence", &cls, "mismatch", format!("game differs under schedule {:?}", s.chunks)));
								}
								// (the writer declares the real raw length, so an in-progress file does not round-trip)
								if !s.skip && !s.in_progress {
									if let Some(i) = first_diff(&a, &built.bytes) {
										viols.push(viol("schedule_independence", &cls, "mismatch", format!("fragmented read does not round-trip (byte {})", i)));
									}
								}
							}
							(a, _) => viols.push(viol("schedule_independence", &cls, a.kind(), a.detail())),
						}
						if w.hash != g.hash {
							viols.push(viol("hash_value", &cls, "mismatch", format!("hash depends on the schedule: {:?} vs {:?}", g.hash, w.hash)));
						}
					}
					o => viols.push(viol("schedule_independence", &cls, o.kind(), o.detail())),
				}
			}
			(Outcome::Err(_), "err") => {}
			(Outcome::Ok(_), "err") => viols.push(viol(
				"cut_accepted",
				&format!("{},segment:{},{}", cls, s.cut.seg, s.cut.r#where),
				"mismatch",
				format!("a file cut at {} of {} bytes was accepted", data.len(), built.bytes.len()),
			)),
			(o, want) => viols.push(viol(
				"sched_read",
				&format!("{},segment:{},{}", cls, s.cut.seg, s.cut.r#where),
				o.kind(),
				format!("model says {}: {}", want, o.detail()),
			)),
		}
		for v in &viols {
			sink.report(v, &|| json!({"sched": {"chunks": s.chunks, "skip": s.skip, "hash": s.hash, "cut_seg": s.cut.seg, "cut_where": s.cut.r#where}, "ver": ver, "bytes_hex": crate::util::hex(data)}));
		}
	}
}

/// Harness-side enumeration for C11/C12 beyond the model's bound: every two-piece split of the
/// stream, fixed chunk sizes, random short reads.
fn deep_splits(db: &LayoutDb, seed: u64, nfiles: usize, all_offsets: bool, sink: &Sink) {
	for i in 0..nfiles {
		let reg = ["C", "A", "B"][i % 3];
		let beh = shaped_beh(reg, 1 + i % 3, i % 2 == 0, i % 4 != 3, i);
		let ver = version_for(db, reg, i, seed);
		let mut o = GenOpts::new(seed ^ 0xD33F ^ i as u64, ver);
		o.plan = 1;
		let built = gen::build_beh(db, &beh, &o);
		let want = xxh3_hex(&built.bytes);
		let mut frags: Vec<Frag> = vec![Frag::Fixed(1), Frag::Fixed(2), Frag::Fixed(3), Frag::Fixed(7), Frag::Fixed(4096)];
		for k in 0..6 {
			frags.push(if k % 2 == 0 { Frag::Random(seed ^ (i as u64) << 8 ^ k) } else { Frag::RandomIntr(seed ^ (i as u64) << 8 ^ k) });
		}
		let step = if all_offsets { 1 } else { 5 };
		let mut k = (seed as usize + i) % step;
		while k < built.bytes.len() {
			frags.push(Frag::SplitAt(k));
			k += step;
		}
		// the replay is followed by other data in its stream (another replay, padding): the hash is that of the
		// replay's bytes, whatever the stream delivers per read
		{
			let mut data = built.bytes.clone();
			data.extend_from_slice(&built.bytes[..built.bytes.len().min(3000)]);
			data.extend(std::iter::repeat(0x7Du8).take(6000));
			for frag in [Frag::Whole, Frag::Fixed(1), Frag::Fixed(64), Frag::Fixed(4096), Frag::Random(seed ^ i as u64)] {
				for skip in [false, true] {
					let cls = format!("{},skip={},hash=true,data_follows", shape_class(&beh), skip);
					sink.count(fnv(&built.bytes) ^ fnv(format!("follows{:?}{}", frag, skip).as_bytes()), true);
					let (res, _, _) = read_frag(&data, frag.clone(), skip, true, None);
					match res {
						Outcome::Ok(g) => {
							if g.hash.as_deref() != Some(want.as_str()) {
								sink.report(&viol("hash_value", &cls, "mismatch", format!("hash {:?}, expected {} under {:?} (other data follows the replay in the stream)", g.hash, want, frag)), &|| json!({"frag": format!("{:?}", frag), "skip": skip, "ver": ver, "bytes_hex": crate::util::hex(&built.bytes)}));
							}
						}
						o => sink.report(&viol("sched_read", &cls, o.kind(), format!("{:?}: {}", frag, o.detail())), &|| json!({"frag": format!("{:?}", frag), "skip": skip, "ver": ver, "bytes_hex": crate::util::hex(&built.bytes)})),
					}
				}
			}
		}
		for frag in frags {
			for skip in [false, true] {
				let cls = format!("{},skip={},hash=true", shape_class(&beh), skip);
				sink.count(fnv(&built.bytes) ^ fnv(format!("{:?}{}", frag, skip).as_bytes()), true);
				let (res, seeks, _) = read_frag(&built.bytes, frag.clone(), skip, true, None);
				let mut viols = vec![];
				match res {
					Outcome::Ok(g) => {
						if g.hash.as_deref() != Some(want.as_str()) {
							viols.push(viol("hash_value", &cls, "mismatch", format!("hash {:?}, expected {} under {:?}", g.hash, want, frag)));
						}
						if seeks > 0 {
							viols.push(viol("hash_seek", &cls, "mismatch", "seek while hashing".into()));
						}
						if !skip {
							match real::write_slp(&g) {
								Outcome::Ok(w) => {
									if w != built.bytes {
										viols.push(viol("schedule_independence", &cls, "mismatch", format!("game differs under {:?}", frag)));
									}
								}
								o => viols.push(viol("schedule_independence", &cls, o.kind(), o.detail())),
							}
						}
					}
					o => viols.push(viol("sched_read", &cls, o.kind(), format!("{:?}: {}", frag, o.detail()))),
				}
				for v in &viols {
					sink.report(v, &|| json!({"frag": format!("{:?}", frag), "skip": skip, "ver": ver, "bytes_hex": crate::util::hex(&built.bytes)}));
				}
			}
		}
	}
}


/// Boundary values of block-wise I/O: files whose SKIPPED span (Game Start .. last Game End) or whose TOTAL length is an
/// exact multiple of a block size (512, 4096, 8192, 65536), or one byte off.  The span is tuned with an unknown event
/// (declared in the payload table) right after Game Start.  Each file is read with all option combinations; hash,
/// start/end/metadata and (full reads) the round trip must be as for any other file.  Before some of the good reads a
/// hashed read of a truncated copy is made on the same thread (a failed read must leave nothing behind).
fn block_boundaries(db: &LayoutDb, seed: u64, sink: &Sink) {
	let blocks = [512usize, 4096, 8192, 16384, 65536, 131072];
	let mut k = 0usize;
	for (bi, blk) in blocks.iter().enumerate() {
		for delta in [0i64, -1, 1] {
			for mode in ["skip_span", "file_len"] {
				k += 1;
				let reg = ["C", "A", "B"][k % 3];
				let mut beh = shaped_beh(reg, 1 + k % 2, k % 2 == 0, k % 3 != 0, k);
				let ver = version_for(db, reg, k, seed);
				let mut o = GenOpts::new(seed ^ 0xB10C ^ k as u64, ver);
				o.plan = 1;
				// measure without padding
				let base = gen::build_beh(db, &beh, &o);
				let last_ge = *base.ev_offs.last().unwrap();
				let span = last_ge - base.events_start;
				let cur = if mode == "skip_span" { span } else { base.bytes.len() };
				let target = (*blk as i64 + delta) as usize;
				let mut target = target;
				while target < cur + 5 {
					target += *blk;
				}
				// one or two unknown events (payload <= 65535 each); the table entry costs 3 bytes of file length
				let mut pad = target - cur - if mode == "file_len" { 3 } else { 0 };
				let mut evs = vec![];
				while pad > 0 {
					let take = pad.min(60000).max(2);
					evs.push(take - 1);
					pad -= take.min(pad);
				}
				if evs.len() > 1 || evs.iter().any(|s| *s == 0 || *s > 65535) {
					// keep it to one event of one size (one table entry)
					if target - cur > 65536 {
						continue;
					}
				}
				let size = evs[0];
				o.unk_sizes.insert(0x40, size as u16);
				beh.hist.insert(0, crate::gen::AEvent { k: "unk".into(), id: 0, p: 0, f: 0, x: 0x40, tok: 900000 });
				let built = gen::build_beh(db, &beh, &o);
				let got = if mode == "skip_span" { *built.ev_offs.last().unwrap() - built.events_start } else { built.bytes.len() };
				if got != target {
					continue; // could not hit the boundary exactly with one event
				}
				let want_hash = xxh3_hex(&built.bytes);
				let cls = format!("regime:{},{}={}x{}{:+}", reg, mode, target / blk, blk, delta);
				sink.sample(|| json!({"boundary": cls, "file_len": built.bytes.len(), "skipped_span": *built.ev_offs.last().unwrap() - built.events_start}));
				let full = real::read_slp(&built.bytes, false, false);
				for (skip, hash) in [(false, true), (true, true), (true, false), (false, false)] {
					sink.count(fnv(&built.bytes) ^ ((skip as u64) << 1 | hash as u64) ^ bi as u64, true);
					if (k + skip as usize) % 2 == 0 {
						// history: a failed hashed read first
						let _ = read_frag(&built.bytes[..built.bytes.len() / 2], Frag::Whole, skip, true, None);
					}
					let (res, seeks, _) = read_frag(&built.bytes, if k % 2 == 0 { Frag::Whole } else { Frag::Fixed(4096) }, skip, hash, None);
					let mut viols = vec![];
					match (&res, &full) {
						(Outcome::Ok(g), Outcome::Ok(f)) => {
							if hash && g.hash.as_deref() != Some(want_hash.as_str()) {
								viols.push(viol("hash_value", &format!("{},skip={}", cls, skip), "mismatch", format!("hash {:?}, expected {}", g.hash, want_hash)));
							}
							if hash && seeks > 0 {
								viols.push(viol("hash_seek", &cls, "mismatch", "seek while hashing".into()));
							}
							if !hash && g.hash.is_some() {
								viols.push(viol("hash_value", &cls, "mismatch", "hash reported although not requested".into()));
							}
							if let Some(m) = same_meta(f, g) {
								viols.push(viol("boundary_read", &format!("{},skip={},hash={}", cls, skip, hash), "mismatch", m));
							}
							if !skip {
								if real::write_slp(g).ok() != real::write_slp(f).ok() {
									viols.push(viol("boundary_read", &cls, "mismatch", "game differs".into()));
								}
							}
						}
						(o, Outcome::Ok(_)) => viols.push(viol("boundary_read", &format!("{},skip={},hash={}", cls, skip, hash), o.kind(), o.detail())),
						_ => {}
					}
					for v in &viols {
						sink.report(v, &|| json!({"boundary": cls, "skip": skip, "hash": hash, "ver": ver, "file_len": built.bytes.len()}));
					}
				}
			}
		}
	}
}

pub fn cmd_sched(a: &Args) {
	let db = LayoutDb::load(a.req("layout"));
	let sink = Sink::new(a.get("replay-dir").unwrap_or("work/replays"));
	let seed = a.num("seed", 1);
	let threads = a.num("threads", 8) as usize;
	let stride = a.num("stride", 1) as usize;
	let only_intact = a.has("only-intact");
	let only_cuts = a.has("only-cuts");
	let n = crate::for_each_tagged(a.req("in"), "SCHED", threads, stride, usize::MAX, |idx, v| {
		let s: Sched = serde_json::from_value(v).expect("SCHED json");
		let intact = s.cut.r#where == "intact";
		if (only_intact && !intact) || (only_cuts && intact) {
			return;
		}
		check_sched(&db, &s, idx, seed, &sink);
	});
	if a.has("splits") {
		deep_splits(&db, seed, a.num("split-files", 3) as usize, a.has("all-offsets"), &sink);
	}
	if a.has("boundaries") {
		block_boundaries(&db, seed, &sink);
	}
	sink.summary(json!({"schedules": n}));
}

// ---------------------------------------------------------------------------------------------
// C07: crash points
// ---------------------------------------------------------------------------------------------

/// A worker thread that runs jobs under a deadline.  When a job overruns, the worker is abandoned
/// (it may be stuck forever) and a fresh one is started for the next job.
/// Calls that did not return within their deadline, in this process.  Each leaves a spinning thread behind: once
/// a few have been seen (and reported by their callers), the loops over work items stop taking new items.
pub static HUNG_CALLS: std::sync::atomic::AtomicUsize = std::sync::atomic::AtomicUsize::new(0);

pub fn too_many_hangs() -> bool {
	HUNG_CALLS.load(std::sync::atomic::Ordering::SeqCst) >= 3
}

pub struct Watchdog {
	tx: Option<mpsc::Sender<Box<dyn FnOnce() + Send>>>,
}

impl Watchdog {
	pub fn new() -> Self {
		Watchdog { tx: None }
	}
	fn worker() -> mpsc::Sender<Box<dyn FnOnce() + Send>> {
		let (tx, rx) = mpsc::channel::<Box<dyn FnOnce() + Send>>();
		std::thread::Builder::new()
			.stack_size(16 << 20)
			.spawn(move || {
				while let Ok(job) = rx.recv() {
					job();
				}
			})
			.expect("spawn");
		tx
	}
	/// Runs `f`; None if it did not finish within `dur`.
	pub fn run<T: Send + 'static>(&mut self, dur: Duration, f: impl FnOnce() -> T + Send + 'static) -> Option<T> {
		let (rtx, rrx) = mpsc::channel();
		let tx = self.tx.get_or_insert_with(Self::worker);
		let job: Box<dyn FnOnce() + Send> = Box::new(move || {
			let _ = rtx.send(f());
		});
		if tx.send(job).is_err() {
			self.tx = None;
			return None;
		}
		match rrx.recv_timeout(dur) {
			Ok(v) => Some(v),
			Err(_) => {
				self.tx = None; // abandon the stuck worker
				HUNG_CALLS.fetch_add(1, std::sync::atomic::Ordering::SeqCst);
				None
			}
		}
	}
}

fn cuts_slp(beh: &Beh, built: &Built, stride: usize, deadline: Duration, sink: &Sink, hangs: &std::sync::atomic::AtomicUsize) {
	use std::sync::atomic::Ordering;
	let cls = shape_class(beh);
	let n = built.bytes.len();
	let shared = std::sync::Arc::new(built.bytes.clone());
	let mut dog = Watchdog::new();
	// every offset of the head (signature, raw header, payload table, start of Game Start) and of the tail (from the
	// first Game End event on: Game End, its duplicate, the metadata element with all its keys and values, the closing
	// braces); strided in between
	let first_end = beh.hist.iter().position(|e| e.k == "ge").and_then(|i| built.ev_offs.get(i).copied()).unwrap_or(n);
	// (the head: through the payload table and the first bytes of Game Start)
	let head_to = built.events_start.saturating_sub(built.start_block.len()) + 12;
	for cut in 0..n {
		if !(cut % stride == 0 || cut < head_to || cut + 8 >= first_end) {
			continue;
		}
		for skip in [false, true] {
			for hash in [false, true] {
				if hash && cut % 3 != 0 {
					continue;
				}
				if hangs.load(Ordering::SeqCst) >= 3 {
					return;
				}
				sink.count(fnv(&built.bytes) ^ ((cut as u64) << 2 | (skip as u64) << 1 | hash as u64), true);
				let c = format!("{},skip={},hash={}", cls, skip, hash);
				let v = match read_frag_guarded(&mut dog, deadline, &shared, cut, Frag::Whole, skip, hash, None) {
					None => {
						hangs.fetch_add(1, Ordering::SeqCst);
						Some(viol("slp_cut", &c, "hang", format!("reading the file cut at byte {} of {} did not return within {:?}", cut, n, deadline)))
					}
					Some((Outcome::Err(_), _, _)) => None,
					Some((Outcome::Ok(_), _, _)) => Some(viol("slp_cut_accepted", &c, "mismatch", format!("file cut at byte {} of {} was accepted", cut, n))),
					Some((o, _, _)) => Some(viol("slp_cut", &c, o.kind(), format!("cut at {} of {}: {}", cut, n, o.detail()))),
				};
				if let Some(v) = v {
					sink.report(&v, &|| json!({"cut": cut, "skip": skip, "hash": hash, "ver": built.ver, "bytes_hex": crate::util::hex(&built.bytes[..cut])}));
				}
			}
		}
	}
}

/// Which region of the archive a byte offset lies in, for violation classes.
fn slpp_region(arch: &[u8], cut: usize) -> String {
	// walk the tar headers
	let mut off = 0usize;
	while off + 512 <= arch.len() {
		let h = &arch[off..off + 512];
		if h.iter().all(|b| *b == 0) {
			return "tar_trailer".into();
		}
		let name: String = h[..100].iter().take_while(|b| **b != 0).map(|b| *b as char).collect();
		let size = usize::from_str_radix(String::from_utf8_lossy(&h[124..135]).trim_matches(|c: char| c == '\0' || c == ' '), 8).unwrap_or(0);
		let data = off + 512;
		let end = data + (size + 511) / 512 * 512;
		if cut < data {
			return format!("{}:header", name);
		}
		if cut < data + size {
			return format!("{}:data", name);
		}
		if cut < end {
			return format!("{}:padding", name);
		}
		off = end;
	}
	"tar_trailer".into()
}

fn cuts_slpp(
	beh: &Beh,
	built: &Built,
	comps: &[Comp],
	stride_bulk: usize,
	stride_arrow: usize,
	deadline: Duration,
	threads: usize,
	sink: &Sink,
	hangs: &std::sync::atomic::AtomicUsize,
) {
	use std::sync::atomic::{AtomicUsize, Ordering};
	let cls = shape_class(beh);
	for comp in comps {
		let g = match real::read_slp(&built.bytes, false, true) {
			Outcome::Ok(g) => g,
			_ => return,
		};
		let arch = match real::write_slpp(g, *comp) {
			Outcome::Ok(a) => a,
			_ => return, // C02's business
		};
		let arch = std::sync::Arc::new(arch);
		let n = arch.len();
		let arrow_start = (0..n).step_by(512).find(|o| slpp_region(&arch, *o) == "frames.arrow:data").unwrap_or(n);
		// the cut points: every offset of the Arrow framing (first 2 kB: magic, schema message, first
		// batch header; last 3 kB of the archive: end-of-stream marker, footer, tar trailer) and around
		// every 512-byte block boundary; strided inside bulk data, tar headers and padding
		let mut cuts: Vec<(usize, String)> = vec![];
		// the message boundaries of the Arrow stream (end of the schema message, end of the record batch):
		// every offset from 8 bytes before to 12 bytes after each
		let bounds: Vec<usize> = if arrow_start < n {
			crate::container::arrow_frames(&arch[arrow_start..]).map_or(vec![], |(a, b)| vec![arrow_start + a, arrow_start + b])
		} else {
			vec![]
		};
		// (and every offset of the small members: the raw end block, small JSON members)
		let small: Vec<(usize, usize)> = crate::tarx::walk(&arch).map(|es| es.iter().filter(|e| e.size <= 96).map(|e| (e.data_off, e.data_off + e.size + 1)).collect()).unwrap_or_default();
		for cut in 0..n {
			let region = slpp_region(&arch, cut);
			let near_block = cut % 512 < 2 || cut % 512 > 509 || small.iter().any(|(a, b)| cut >= *a && cut <= *b);
			let near_msg = bounds.iter().any(|b| cut + 8 >= *b && cut <= *b + 12);
			let keep = if region == "frames.arrow:data" {
				stride_arrow <= 1 || cut % stride_arrow == 0 || cut - arrow_start <= 2048 || n - cut <= 3072 || near_block || near_msg
			} else if n - cut <= 3072 {
				true
			} else {
				near_block || cut % stride_bulk == 0
			};
			if keep {
				cuts.push((cut, region));
			}
		}
		let next = AtomicUsize::new(0);
		std::thread::scope(|s| {
			for _ in 0..threads.max(1) {
				s.spawn(|| {
					let mut dog = Watchdog::new();
					loop {
						let i = next.fetch_add(1, Ordering::SeqCst);
						if i >= cuts.len() || hangs.load(Ordering::SeqCst) >= 3 {
							return;
						}
						let (cut, region) = (cuts[i].0, &cuts[i].1);
						sink.count(fnv(&arch) ^ cut as u64, true);
						let a2 = arch.clone();
						let res = dog.run(deadline, move || real::read_slpp(&a2[..cut], false));
						let ccls = format!("{},comp:{},region:{}", cls, comp.name(), region);
						let v = match res {
							None => {
								hangs.fetch_add(1, Ordering::SeqCst);
								Some(viol("slpp_cut", &ccls, "hang", format!("reading the archive cut at byte {} of {} did not return within {:?}", cut, n, deadline)))
							}
							Some(Outcome::Err(_)) => None,
							Some(Outcome::Ok(g2)) => match real::write_slp(&g2) {
								Outcome::Ok(w) if w == built.bytes => {
									// accepted as exactly the full game: only allowed once the frame data is complete
									if !(region.starts_with("frames.arrow") || region == "tar_trailer") {
										Some(viol("slpp_cut_accepted", &ccls, "mismatch", format!("cut at {} of {} accepted although it lies before the frame data", cut, n)))
									} else {
										None
									}
								}
								_ => Some(viol("slpp_cut_accepted", &ccls, "mismatch", format!("archive cut at byte {} of {} was read as a different (partial) game", cut, n))),
							},
							Some(o) => Some(viol("slpp_cut", &ccls, o.kind(), format!("cut at {} of {}: {}", cut, n, o.detail()))),
						};
						if let Some(v) = v {
							sink.report(&v, &|| json!({"cut": cut, "comp": comp.name(), "ver": built.ver, "slp_hex": crate::util::hex(&built.bytes)}));
						}
					}
				});
			}
		});
	}
}

pub fn cmd_cuts(a: &Args) {
	let db = LayoutDb::load(a.req("layout"));
	let sink = Sink::new(a.get("replay-dir").unwrap_or("work/replays"));
	let seed = a.num("seed", 1);
	let threads = a.num("threads", 8) as usize;
	let stride = a.num("stride", 1) as usize;
	let max = a.num("max", u64::MAX) as usize;
	let slp_stride = a.num("slp-cut-stride", 1) as usize;
	let nslpp = a.num("slpp-files", 2) as usize; // how many behaviours also get the .slpp treatment
	let bulk = a.num("slpp-bulk-stride", 64) as usize;
	let arrow_stride = a.num("slpp-arrow-stride", 1) as usize;
	let deadline = Duration::from_millis(a.num("deadline-ms", 5000));
	let comps: Vec<Comp> = if a.has("all-comps") { Comp::all().to_vec() } else { vec![Comp::Lz4, Comp::None, Comp::Zstd] };
	let hangs = std::sync::atomic::AtomicUsize::new(0);
	let for_slpp: std::sync::Mutex<Vec<(Beh, Built)>> = std::sync::Mutex::new(vec![]);
	let n = crate::for_each_tagged(a.req("in"), "BEH", threads, stride, max, |idx, v| {
		let beh: Beh = serde_json::from_value(v).expect("BEH json");
		if beh.file_end == "none" {
			return; // C07 is about finished files
		}
		for ver in crate::pick_versions(&db, &beh, idx, 1, seed) {
			let mut o = GenOpts::new(seed ^ ((idx as u64) << 16), ver);
			o.plan = 1;
			let built = gen::build_beh(&db, &beh, &o);
			sink.sample(|| json!({"regime": beh.reg, "version": ver, "file_len": built.bytes.len(), "cuts": "every byte offset, skip on/off"}));
			cuts_slp(&beh, &built, slp_stride, deadline, &sink, &hangs);
			let mut q = for_slpp.lock().unwrap();
			// keep the behaviours with the most events (most Arrow content), a few of them
			q.push((beh.clone(), built));
			q.sort_by_key(|(b, _)| std::cmp::Reverse(b.hist.len() * 4 + b.fin.gecko.len() + (b.file_end == "double") as usize));
			q.truncate(nslpp);
		}
	});
	for (beh, built) in for_slpp.lock().unwrap().iter() {
		cuts_slpp(beh, built, &comps, bulk, arrow_stride, deadline, threads, &sink, &hangs);
	}
	sink.summary(json!({"behaviours": n, "slpp_archives": nslpp * comps.len()}));
}

// ---------------------------------------------------------------------------------------------
// C10: skip-frames
// ---------------------------------------------------------------------------------------------

fn same_meta(a: &Game, b: &Game) -> Option<String> {
	// Start holds f32 fields and NaN != NaN under PartialEq: compare the raw block and the rendering
	if a.start.bytes != b.start.bytes || format!("{:?}", a.start) != format!("{:?}", b.start) {
		return Some("Game Start differs".into());
	}
	if a.end != b.end {
		return Some("Game End differs".into());
	}
	if a.metadata != b.metadata {
		return Some("metadata differs".into());
	}
	None
}

fn check_skip(beh: &Beh, built: &Built, sink: &Sink) {
	let cls = shape_class(beh);
	let mut viols = vec![];
	let full = match real::read_slp(&built.bytes, false, false) {
		Outcome::Ok(g) => g,
		_ => return, // C01's business
	};
	for hash in [false, true] {
		let c = format!("{},hash={}", cls, hash);
		let sk = match real::read_slp(&built.bytes, true, hash) {
			Outcome::Ok(g) => g,
			o => {
				viols.push(viol("skip_read", &c, o.kind(), o.detail()));
				continue;
			}
		};
		if let Some(m) = same_meta(&full, &sk) {
			viols.push(viol("skip_vs_full", &c, "mismatch", m));
		}
		if sk.frames.id.len() != 0 {
			viols.push(viol("skip_vs_full", &c, "mismatch", format!("{} frames after a skip-frames read", sk.frames.id.len())));
		}
		if hash && sk.hash.as_deref() != Some(crate::streamchk::xxh3_hex(&built.bytes).as_str()) {
			viols.push(viol("skip_hash", &c, "mismatch", format!("hash {:?}", sk.hash)));
		}
		// the result can be written out and re-read, in both formats
		match real::write_slp(&sk) {
			Outcome::Ok(w) => match real::read_slp(&w, false, false) {
				Outcome::Ok(g2) => {
					if let Some(m) = same_meta(&full, &g2) {
						viols.push(viol("skip_rewrite_slp", &c, "mismatch", m));
					}
				}
				o => viols.push(viol("skip_rewrite_slp", &c, o.kind(), format!("re-read: {}", o.detail()))),
			},
			o => viols.push(viol("skip_rewrite_slp", &c, o.kind(), o.detail())),
		}
		// (under each compression in turn; the others below)
		if let Outcome::Ok(sk2) = real::read_slp(&built.bytes, true, hash) {
			for comp in [Comp::Lz4, Comp::Zstd] {
				if let Outcome::Ok(sk3) = real::read_slp(&built.bytes, true, hash) {
					match real::write_slpp(sk3, comp) {
						Outcome::Ok(arch) => match real::read_slpp(&arch, false) {
							Outcome::Ok(g2) => {
								if let Some(m) = same_meta(&full, &g2) {
									viols.push(viol("skip_rewrite_slpp", &c, "mismatch", format!("{} ({})", m, comp.name())));
								}
							}
							o => viols.push(viol("skip_rewrite_slpp", &c, o.kind(), format!("re-read ({}): {}", comp.name(), o.detail()))),
						},
						o => viols.push(viol("skip_rewrite_slpp", &c, o.kind(), format!("({}) {}", comp.name(), o.detail()))),
					}
				}
			}
			let _ = sk2;
		}
		match real::write_slpp(sk, Comp::None) {
			Outcome::Ok(arch) => match real::read_slpp(&arch, false) {
				Outcome::Ok(g2) => {
					if let Some(m) = same_meta(&full, &g2) {
						viols.push(viol("skip_rewrite_slpp", &c, "mismatch", m));
					}
					if g2.frames.id.len() != 0 {
						viols.push(viol("skip_rewrite_slpp", &c, "mismatch", "frames appeared".into()));
					}
				}
				o => viols.push(viol("skip_rewrite_slpp", &c, o.kind(), format!("re-read: {}", o.detail()))),
			},
			o => viols.push(viol("skip_rewrite_slpp", &c, o.kind(), o.detail())),
		}
	}
	// the replay does not start at position 0 of its stream (it follows other data, and other data follows it)
	{
		let k = 1 + (fnv(&built.bytes) % 700) as usize;
		let mut data = vec![0xEEu8; k];
		data.extend_from_slice(&built.bytes);
		data.extend_from_slice(&built.bytes[..built.bytes.len().min(64)]);
		for hash in [false, true] {
			let c = format!("{},hash={},stream_offset", cls, hash);
			let opts = peppi::io::slippi::de::Opts { skip_frames: true, compute_hash: hash, debug: None, ..Default::default() };
			// (a stream that fragments reads and can only move forward)
			let mut cur = crate::stream::FragReader::new(&data[..], crate::stream::Frag::Fixed(1 + k % 97));
			cur.forward_only = true;
			cur.set_position(k);
			match crate::util::guard(|| peppi::io::slippi::read(&mut cur, Some(&opts))) {
				Outcome::Ok(g) => {
					if let Some(m) = same_meta(&full, &g) {
						viols.push(viol("skip_vs_full", &c, "mismatch", format!("replay at stream offset {}: {}", k, m)));
					}
					if hash && g.hash.as_deref() != Some(crate::streamchk::xxh3_hex(&built.bytes).as_str()) {
						viols.push(viol("skip_hash", &c, "mismatch", format!("replay at stream offset {}: hash {:?}", k, g.hash)));
					}
				}
				o => viols.push(viol("skip_read", &c, o.kind(), format!("replay at stream offset {}: {}", k, o.detail()))),
			}
		}
	}
	// the .slpp reader's own skip option
	let full2 = real::read_slp(&built.bytes, false, true).ok().unwrap();
	let (stored_hash, stored_quirk) = (full2.hash.clone(), full2.quirks.map_or(false, |q| q.double_game_end));
	match real::write_slpp(full2, Comp::Lz4) {
		Outcome::Ok(arch) => match real::read_slpp(&arch, true) {
			Outcome::Ok(g2) => {
				if let Some(m) = same_meta(&full, &g2) {
					viols.push(viol("slpp_skip_vs_full", &cls, "mismatch", m));
				}
				// what the archive stores besides the game (the replay's hash, the quirk flags) comes back with skip too
				if g2.hash != stored_hash || g2.quirks.map_or(false, |q| q.double_game_end) != stored_quirk {
					viols.push(viol("slpp_skip_vs_full", &cls, "mismatch", format!("stored hash / quirks differ under skip-frames: {:?} vs {:?}", g2.hash, stored_hash)));
				}
				if g2.frames.id.len() != 0 {
					viols.push(viol("slpp_skip_vs_full", &cls, "mismatch", format!("{} frames", g2.frames.id.len())));
				}
				if g2.frames.ports.len() != full.frames.ports.len() {
					viols.push(viol("slpp_skip_vs_full", &cls, "mismatch", "port set differs".into()));
				}
				match real::write_slp(&g2) {
					Outcome::Ok(w) => {
						if !real::read_slp(&w, false, false).is_ok() {
							viols.push(viol("slpp_skip_rewrite", &cls, "err", "written skip result cannot be re-read".into()));
						}
					}
					o => viols.push(viol("slpp_skip_rewrite", &cls, o.kind(), o.detail())),
				}
				// ... and as .slpp again
				match real::write_slpp(g2, Comp::Zstd) {
					Outcome::Ok(a2) => match real::read_slpp(&a2, false) {
						Outcome::Ok(g3) => {
							if let Some(m) = same_meta(&full, &g3) {
								viols.push(viol("slpp_skip_rewrite", &cls, "mismatch", format!("after .slpp -> skip -> .slpp: {}", m)));
							}
						}
						o => viols.push(viol("slpp_skip_rewrite", &cls, o.kind(), format!("re-read of the re-written .slpp: {}", o.detail()))),
					},
					o => viols.push(viol("slpp_skip_rewrite", &cls, o.kind(), format!("writing the skip result as .slpp: {}", o.detail()))),
				}
			}
			o => viols.push(viol("slpp_skip_read", &cls, o.kind(), o.detail())),
		},
		_ => {} // C02's business
	}
	for v in &viols {
		sink.report(v, &|| json!({"ver": built.ver, "bytes_hex": crate::util::hex(&built.bytes)}));
	}
}

pub fn cmd_skip(a: &Args) {
	let db = LayoutDb::load(a.req("layout"));
	let sink = Sink::new(a.get("replay-dir").unwrap_or("work/replays"));
	let seed = a.num("seed", 1);
	let threads = a.num("threads", 8) as usize;
	let nver = a.num("nver", 3) as usize;
	let n = crate::for_each_tagged(a.req("in"), "BEH", threads, a.num("stride", 1) as usize, usize::MAX, |idx, v| {
		let beh: Beh = serde_json::from_value(v).expect("BEH json");
		if beh.file_end == "none" {
			return; // C10 is about finished replays (Game End present as the last event)
		}
		for ver in crate::pick_versions(&db, &beh, idx, nver, seed) {
			let mut o = GenOpts::new(seed ^ ((idx as u64) << 16) ^ ver[1] as u64, ver);
			o.plan = 1;
			let built = gen::build_beh(&db, &beh, &o);
			sink.count(fnv(&built.bytes), !beh.fin.ids.is_empty());
			sink.sample(|| json!({"regime": beh.reg, "version": ver, "end": beh.file_end, "meta": beh.meta, "gecko_blocks": beh.fin.gecko.len(), "frames": beh.fin.ids.len()}));
			check_skip(&beh, &built, &sink);
		}
	});
	sink.summary(json!({"behaviours": n}));
}
