//! C06 (never panic / abort / hang) and C08 (unknown events, longer payloads) checks.

use std::collections::BTreeMap;
use std::time::Duration;

use serde::Deserialize;
use serde_json::json;

use peppi::io::slippi;

use crate::checks::{viol, Viol};
use crate::cols;
use crate::gen::{self, AEvent, Beh, GenOpts};
use crate::layout::LayoutDb;
use crate::real;
use crate::stream::{Frag, FragReader};
use crate::streamchk::{read_frag, Watchdog};
use crate::util::{fnv, guard, Outcome, Rng};
use crate::{Args, Sink};

#[derive(Deserialize, Debug, Clone)]
struct Edge {
	reg: String,
	occ: Vec<String>,
	hist: Vec<AEvent>,
	out: String,
	reason: String,
	rows: usize,
}

const UNK_CODE: u8 = 0x40;
const UNDECLARED_CODE: u8 = 0x41;

/// Concretises an adversarial history into a file for a version of its regime.
fn build_adversarial(db: &LayoutDb, reg: &str, occ: &[String], hist: &[AEvent], ver: [u8; 3], seed: u64) -> Vec<u8> {
	let l = db.for_version(ver[0], ver[1]);
	let mut r = Rng::keyed(seed, 0xAD7, hist.len() as u64);
	let start_block = gen::build_start_block(db, ver, occ, l.start_len, &mut r);
	let end_block = gen::build_end_block(db, l.end_len, &mut r);
	let bad_split = hist.iter().any(|e| e.k == "split" && e.id == 1);
	let split_size: usize = if bad_split { 100 } else { 516 };
	let unk_size: usize = *r.pick(&[1usize, 7, 600]);
	let _ = reg;
	// the payload table is attacker-controlled: declare every code the history uses
	let mut tbl: Vec<(u8, u16)> = vec![
		(0x36, start_block.len() as u16),
		(l.pre.code, l.pre.size as u16),
		(l.post.code, l.post.size as u16),
		(0x39, end_block.len() as u16),
		(l.start.code, l.start.size as u16),
		(l.item.code, l.item.size as u16),
		(l.end.code, l.end.size as u16),
		(0x3D, 100),
		(0x10, split_size as u16),
		(UNK_CODE, unk_size as u16),
	];
	if hist.iter().any(|e| e.k == "dup_payloads") {
		tbl.push((0x35, 4));
	}
	let mut raw = vec![0x35u8, (tbl.len() * 3 + 1) as u8];
	for (c, s) in &tbl {
		raw.push(*c);
		raw.extend_from_slice(&s.to_be_bytes());
	}
	raw.push(0x36);
	raw.extend_from_slice(&start_block);
	let o = GenOpts::new(seed, ver);
	for e in hist {
		let buf: Vec<u8> = match e.k.as_str() {
			"pre" => gen::frame_event_bytes(&l.pre, e, &o),
			"post" => gen::frame_event_bytes(&l.post, e, &o),
			"fs" => gen::frame_event_bytes(&l.start, e, &o),
			"fe" => gen::frame_event_bytes(&l.end, e, &o),
			"item" => gen::frame_event_bytes(&l.item, e, &o),
			"ge" => {
				let mut b = vec![0x39];
				b.extend_from_slice(&end_block);
				if e.x == 1 {
					b[1] = 9; // not an end method
				}
				b
			}
			"split" => {
				let mut b = vec![0u8; 1 + split_size];
				let mut rr = Rng::keyed(seed, e.tok as u64, 0x10);
				rr.fill(&mut b);
				b[0] = 0x10;
				if split_size == 516 {
					let actual = if e.x > 512 { 513 + rr.below(60000) } else { e.x as u64 };
					b[513] = (actual >> 8) as u8;
					b[514] = actual as u8;
					b[515] = e.p as u8;
					b[516] = e.f as u8;
				}
				b
			}
			"unk" => {
				let mut b = vec![0u8; 1 + unk_size];
				r.fill(&mut b);
				b[0] = UNK_CODE;
				b
			}
			"undeclared" => vec![UNDECLARED_CODE, 1, 2, 3],
			"dup_payloads" => vec![0x35, 4, 0x36, 0, 1],
			"dup_start" => {
				let mut b = vec![0x36];
				b.extend_from_slice(&start_block);
				b
			}
			k => panic!("kind {}", k),
		};
		raw.extend_from_slice(&buf);
	}
	let mut bytes = vec![];
	bytes.extend_from_slice(&gen::FILE_SIGNATURE);
	bytes.extend_from_slice(&(raw.len() as u32).to_be_bytes());
	bytes.extend_from_slice(&raw);
	bytes.extend_from_slice(&gen::META_KEY);
	bytes.extend_from_slice(&gen::default_meta_body());
	bytes.push(0x7d);
	bytes
}

/// Drives the incremental API over the whole raw element; reports (per event outcome kinds, panic detail).
fn drive_incremental(bytes: &[u8], nevents: usize) -> (Vec<&'static str>, Option<String>) {
	let mut r = FragReader::new(bytes, Frag::Whole);
	let mut kinds = vec![];
	match guard(|| slippi::de::parse_header(&mut r, None)) {
		Outcome::Ok(_) => {}
		o => return (vec![o.kind()], if let Outcome::Panic(p) = o { Some(p) } else { None }),
	}
	let mut st = match guard(|| slippi::de::parse_start(&mut r, None)) {
		Outcome::Ok(s) => s,
		o => return (vec![o.kind()], if let Outcome::Panic(p) = o { Some(p) } else { None }),
	};
	for _ in 0..nevents {
		let o = guard(|| slippi::de::parse_event(&mut r, &mut st, None));
		kinds.push(o.kind());
		match o {
			Outcome::Ok(_) => {}
			Outcome::Err(_) => break,
			Outcome::Panic(p) => return (kinds, Some(p)),
		}
	}
	(kinds, None)
}

fn check_edge(db: &LayoutDb, e: &Edge, idx: usize, seed: u64, sink: &Sink, mode: &str) {
	let vs = db.versions_of_regime(&e.reg);
	let bounds: Vec<(u8, u8)> = db.class_boundaries().into_iter().filter(|b| vs.contains(b)).collect();
	let (a, b) = if idx % 2 == 0 { bounds[(idx / 2) % bounds.len()] } else { vs[(idx * 7 + seed as usize) % vs.len()] };
	let max = db.blocks.max_supported;
	let ver = [a, b, if (a, b) == (max[0], max[1]) { 0 } else { (idx % 200) as u8 }];
	let bytes = build_adversarial(db, &e.reg, &e.occ, &e.hist, ver, seed ^ idx as u64);
	let last = e.hist.last().unwrap();
	let cls = format!("regime:{},event:{},model:{}{}", e.reg, last.k, e.out, if e.reason.is_empty() { String::new() } else { format!(":{}", e.reason) });
	sink.count(fnv(&bytes), e.out == "err");
	sink.sample(|| json!({"regime": e.reg, "occ": e.occ, "version": ver, "events": e.hist.iter().map(|x| format!("{}:{}:{}:{}:{}", x.k, x.id, x.p, x.f, x.x)).collect::<Vec<_>>(), "model_outcome": e.out, "reason": e.reason, "rows_after": e.rows}));
	let mut viols: Vec<Viol> = vec![];
	if mode == "c06" {
		let (kinds, panic) = drive_incremental(&bytes, e.hist.len());
		if let Some(p) = panic {
			viols.push(viol("parser_edge", &cls, "panic", format!("event {} of {}: {}", kinds.len(), e.hist.len(), p)));
		}
		for (skip, hash) in [(false, false), (true, true), (false, true), (true, false)] {
			let (o, _, _) = read_frag(&bytes, Frag::Whole, skip, hash, None);
			if let Outcome::Panic(p) = o {
				viols.push(viol("oneshot_edge", &format!("{},skip={}", cls, skip), "panic", p));
				break;
			}
		}
	} else {
		// C08: the last event is an unknown event accepted by the model: the game is untouched
		// ... also when the unknown event arrives wrapped in message-splitter blocks
		let wrapped_unknown = last.k == "split" && last.id == 0 && last.x <= 512 && (last.f == 0 || ![61i64, 53, 54, 55, 56, 57, 58, 59, 60].contains(&last.p));
		if (last.k == "unk" || wrapped_unknown) && e.out == "run" {
			let n = e.hist.len();
			let with = observe_prefix(&bytes, n);
			let without = observe_prefix(&bytes, n - 1);
			match (with, without) {
				(Some((c1, code, br1)), Some((c0, _, br0))) => {
					if c1 != c0 {
						viols.push(viol("unknown_event", &cls, "mismatch", "the parsed game (frame data, Gecko codes or Game End) was changed by an unknown event".into()));
					}
					let _ = code; // (the returned code is not part of the property)
					if br1 <= br0 {
						viols.push(viol("unknown_event", &cls, "mismatch", "bytes_read did not advance".into()));
					}
				}
				(None, Some(_)) => viols.push(viol("unknown_event", &cls, "err", "an unknown event declared in the payload table was not skipped".into())),
				_ => {}
			}
		}
	}
	for v in &viols {
		sink.report(v, &|| json!({"edge": {"reg": e.reg, "occ": e.occ, "hist": e.hist.iter().map(|x| json!({"k": x.k, "id": x.id, "p": x.p, "f": x.f, "x": x.x})).collect::<Vec<_>>()}, "ver": ver, "bytes_hex": crate::util::hex(&bytes)}));
	}
}

/// Game observables (frame columns, Gecko codes, Game End), last returned code and bytes_read after the
/// first `n` events (None if any step fails).
fn observe_prefix(bytes: &[u8], n: usize) -> Option<((cols::Cols, Option<(Vec<u8>, u32)>, bool), u8, usize)> {
	let mut r = FragReader::new(bytes, Frag::Whole);
	guard(|| slippi::de::parse_header(&mut r, None)).ok()?;
	let mut st = guard(|| slippi::de::parse_start(&mut r, None)).ok()?;
	let mut code = 0;
	for _ in 0..n {
		code = guard(|| slippi::de::parse_event(&mut r, &mut st, None)).ok()?;
	}
	let gecko = peppi::game::Game::gecko_codes(&st).as_ref().map(|g| (g.bytes.clone(), g.actual_size));
	let ended = peppi::game::Game::end(&st).is_some();
	Some(((cols::from_mutable(st.frames()), gecko, ended), code, st.bytes_read()))
}

pub fn cmd_edges(a: &Args) {
	let db = LayoutDb::load(a.req("layout"));
	let sink = Sink::new(a.get("replay-dir").unwrap_or("work/replays"));
	let seed = a.num("seed", 1);
	let threads = a.num("threads", 8) as usize;
	let mode = a.get("mode").unwrap_or("c06").to_string();
	let n = crate::for_each_tagged(a.req("in"), "EDGE", threads, a.num("stride", 1) as usize, usize::MAX, |idx, v| {
		let e: Edge = serde_json::from_value(v).expect("EDGE json");
		check_edge(&db, &e, idx, seed, &sink, &mode);
	});
	sink.summary(json!({"edges": n}));
}

// ---------------------------------------------------------------------------------------------
// C06: file-level adversary, byte-level corruption, injected I/O faults, deep metadata
// ---------------------------------------------------------------------------------------------

fn all_reads(bytes: std::sync::Arc<Vec<u8>>, dog: &mut Watchdog, deadline: Duration) -> Option<(String, String)> {
	// (kind, detail) of the first panic / hang, if any
	let b2 = bytes.clone();
	let res = dog.run(deadline, move || {
		for (skip, hash) in [(false, false), (true, true), (true, false), (false, true)] {
			let (o, _, _) = read_frag(&b2, Frag::Whole, skip, hash, None);
			if let Outcome::Panic(p) = o {
				return Some(("panic".to_string(), format!("one-shot skip={} hash={}: {}", skip, hash, p)));
			}
		}
		let (_, p) = drive_incremental(&b2, 1 << 20);
		p.map(|p| ("panic".to_string(), format!("incremental: {}", p)))
	});
	match res {
		None => Some(("hang".into(), format!("no return within {:?}", deadline))),
		Some(x) => x,
	}
}

fn table_span(bytes: &[u8]) -> Option<(usize, usize)> {
	// (offset of first table entry, number of entries)
	if bytes.len() < 17 || bytes[15] != 0x35 {
		return None;
	}
	let size = bytes[16] as usize;
	if size == 0 {
		return None;
	}
	Some((17, (size - 1) / 3))
}

/// The string fields of the Game Start block (name tags, netplay names, connect codes, user ids, match ids; offsets from
/// the TLA+ layout) filled with contents a decoder may choke on: half-width katakana (1 byte -> 3 bytes of UTF-8) in
/// runs of several lengths, lead bytes without a trail byte, bytes that are never valid, full fields without a NUL.
fn string_fill_mutants(db: &LayoutDb, base: &[u8]) -> Vec<(String, Vec<u8>)> {
	let mut out = vec![];
	let (t0, n) = match table_span(base) {
		Some(x) => x,
		None => return out,
	};
	let cmd = t0 + 3 * n; // the Game Start command byte
	if cmd >= base.len() || base[cmd] != 0x36 {
		return out;
	}
	let size = (0..n).find(|i| base[t0 + 3 * i] == 0x36).map(|i| u16::from_be_bytes([base[t0 + 3 * i + 1], base[t0 + 3 * i + 2]]) as usize).unwrap_or(0);
	let mut fields: Vec<&crate::layout::SField> = db.blocks.start_global.iter().collect();
	for p in &db.blocks.start_player {
		fields.extend(p.iter());
	}
	for f in fields {
		if !(f.k.starts_with("sjis") || f.k.starts_with("utf8z")) || f.off - 1 + f.w > size || cmd + f.off + f.w > base.len() {
			continue;
		}
		let w = f.w;
		let pats: Vec<(&str, Vec<u8>)> = vec![
			("kana_full", vec![0xB1; w]),
			("kana2", [vec![0xB1, 0xB1], vec![0; w - 2]].concat()),
			("kana3a", [vec![0xB1, 0xB1, 0xB1, 0x41], vec![0; w - 4]].concat()),
			("kana_half", [vec![0xDF; w / 2], vec![0; w - w / 2]].concat()),
			("kana_but_last", [vec![0xA1; w - 1], vec![0]].concat()),
			("lead_at_end", [vec![0x41; w - 1], vec![0x81]].concat()),
			("lead_then_nul", [vec![0x88, 0x00], vec![0x41; w - 2]].concat()),
			("pairs_full", (0..w).map(|i| if i % 2 == 0 { 0x81 } else { 0x40 }).collect()),
			("never_valid", vec![0xFF; w]),
			("x80", vec![0x80; w]),
			("ascii_full", vec![0x7E; w]),
			("utf8_cont", vec![0xBF; w]),
			("four_byte", (0..w).map(|i| [0xF0u8, 0x9F, 0x98, 0x80][i % 4]).collect()),
		];
		for (pn, pat) in pats {
			let mut b = base.to_vec();
			b[cmd + f.off..cmd + f.off + w].copy_from_slice(&pat);
			out.push((format!("start_string:{}={}", f.n, pn), b));
		}
	}
	out
}

fn mutants_of(base: &[u8], r: &mut Rng, nrandom: usize) -> Vec<(String, Vec<u8>)> {
	let mut out: Vec<(String, Vec<u8>)> = vec![];
	let with_raw_len = |v: u32| {
		let mut b = base.to_vec();
		if b.len() >= 15 {
			b[11..15].copy_from_slice(&v.to_be_bytes());
		}
		b
	};
	let raw_len = if base.len() >= 15 { u32::from_be_bytes([base[11], base[12], base[13], base[14]]) } else { 0 };
	for (n, v) in [
		("raw_len=0", 0u32),
		("raw_len=1", 1),
		("raw_len-1", raw_len.wrapping_sub(1)),
		("raw_len+1", raw_len.wrapping_add(1)),
		("raw_len=small", 40),
		("raw_len=after_start", 2 + 3 * 7 + 1 + 321),
		("raw_len=huge", 0x7FFF_FFFF),
		("raw_len=max", 0xFFFF_FFFF),
	] {
		out.push((format!("header:{}", n), with_raw_len(v)));
	}
	if let Some((t0, n)) = table_span(base) {
		for i in 0..n {
			let o = t0 + 3 * i;
			if o + 3 > base.len() {
				break;
			}
			let cur = u16::from_be_bytes([base[o + 1], base[o + 2]]);
			for (nm, v) in [("0", 0u16), ("1", 1), ("-1", cur.wrapping_sub(1)), ("+1", cur.wrapping_add(1)), ("x2", cur.wrapping_mul(2)), ("max", 0xFFFF), ("4", 4), ("6", 6)] {
				let mut b = base.to_vec();
				b[o + 1..o + 3].copy_from_slice(&v.to_be_bytes());
				out.push((format!("table:size[{:#x}]={}", base[o], nm), b));
			}
			// retarget the entry to another code (the original code becomes undeclared)
			for c in [0x10u8, 0x35, 0x36, 0x39, 0x3A, 0x3B, 0x3C, 0x3D, 0x77] {
				let mut b = base.to_vec();
				b[o] = c;
				out.push((format!("table:code[{:#x}]->{:#x}", base[o], c), b));
			}
		}
		for v in [0u8, 1, 2, 3, 4, 255] {
			let mut b = base.to_vec();
			b[16] = v;
			out.push((format!("table:len={}", v), b));
		}
	}
	// version bytes: events illegal for the (claimed) version
	if base.len() > 15 {
		if let Some((t0, n)) = table_span(base) {
			let vo = t0 + 3 * n + 1;
			if vo + 3 <= base.len() {
				for v in [[0u8, 1, 0], [1, 0, 0], [2, 0, 0], [2, 2, 0], [3, 0, 0], [3, 6, 0], [3, 16, 0], [3, 17, 0], [9, 9, 9], [255, 255, 255]] {
					let mut b = base.to_vec();
					b[vo..vo + 3].copy_from_slice(&v);
					out.push((format!("start:version={}.{}", v[0], v[1]), b));
				}
			}
		}
	}
	for k in 0..nrandom {
		let mut b = base.to_vec();
		if b.is_empty() {
			break;
		}
		match k % 5 {
			0 | 1 => {
				// flip 1..4 bytes, biased towards the structured head of the file
				for _ in 0..1 + r.below(4) {
					let lim = if r.chance(1, 2) { b.len().min(600) } else { b.len() };
					let i = r.below(lim as u64) as usize;
					b[i] = if r.chance(1, 3) { *r.pick(&[0u8, 1, 0x10, 0x35, 0x36, 0x37, 0x38, 0x39, 0x3A, 0x3B, 0x3C, 0x3D, 0x55, 0x7b, 0x7d, 0xFF]) } else { r.byte() };
				}
				out.push(("bytes:flip".into(), b));
			}
			2 => {
				let i = r.below(b.len() as u64) as usize;
				let n = 1 + r.below(8) as usize;
				for _ in 0..n {
					b.insert(i, r.byte());
				}
				out.push(("bytes:insert".into(), b));
			}
			3 => {
				let i = r.below(b.len() as u64) as usize;
				let n = (1 + r.below(8) as usize).min(b.len() - i);
				b.drain(i..i + n);
				out.push(("bytes:delete".into(), b));
			}
			_ => {
				// duplicate / swap a slice (event reorder at the byte level)
				let i = r.below(b.len() as u64) as usize;
				let n = (1 + r.below(100) as usize).min(b.len() - i);
				let sl: Vec<u8> = b[i..i + n].to_vec();
				let j = r.below(b.len() as u64) as usize;
				for (k2, x) in sl.iter().enumerate() {
					b.insert(j + k2, *x);
				}
				out.push(("bytes:duplicate_slice".into(), b));
			}
		}
	}
	out
}

fn check_faults(bytes: &[u8], cls: &str, sink: &Sink) {
	// an I/O error injected at any read call must surface as an error
	let shared = std::sync::Arc::new(bytes.to_vec());
	let mut dog = Watchdog::new();
	let dl = Duration::from_secs(20);
	for (skip, hash) in [(false, false), (true, true), (true, false)] {
		let (base, _, calls) = match crate::streamchk::read_frag_guarded(&mut dog, dl, &shared, bytes.len(), Frag::Fixed(64), skip, hash, None) {
			Some(x) => x,
			None => return,
		};
		if !base.is_ok() {
			return;
		}
		for k in 0..calls {
			sink.count(fnv(bytes) ^ ((k as u64) << 3 | (skip as u64) << 1 | hash as u64), true);
			let o = match crate::streamchk::read_frag_guarded(&mut dog, dl, &shared, bytes.len(), Frag::Fixed(64), skip, hash, Some(k)) {
				Some((o, _, _)) => o,
				None => {
					sink.report(&viol("io_fault", &format!("{},skip={},hash={}", cls, skip, hash), "hang", format!("no return within 20 s after a read error injected at call {}", k)), &|| json!({"fail_at": k}));
					return;
				}
			};
			let v = match o {
				Outcome::Err(_) => None,
				Outcome::Ok(_) => Some(viol("io_fault", &format!("{},skip={},hash={}", cls, skip, hash), "mismatch", format!("a read error injected at read call {} of {} was swallowed: the read succeeded", k, calls))),
				Outcome::Panic(p) => Some(viol("io_fault", &format!("{},skip={},hash={}", cls, skip, hash), "panic", p)),
			};
			if let Some(v) = v {
				sink.report(&v, &|| json!({"fail_at": k, "skip": skip, "hash": hash, "bytes_hex": crate::util::hex(bytes)}));
				break;
			}
		}
	}
}

/// Class of a mutation for signatures: the mutation family and, for panics, the source location.
fn panic_site(detail: &str) -> String {
	match detail.rfind(" @ ") {
		Some(i) => {
			let loc = &detail[i + 3..];
			let loc = loc.rsplit("/src/").next().unwrap_or(loc);
			format!("site:{}", loc)
		}
		None => "site:?".into(),
	}
}

pub fn cmd_fuzz(a: &Args) {
	let db = LayoutDb::load(a.req("layout"));
	let sink = Sink::new(a.get("replay-dir").unwrap_or("work/replays"));
	let seed = a.num("seed", 1);
	let threads = a.num("threads", 8) as usize;
	let nrandom = a.num("random", 40) as usize;
	let deadline = Duration::from_millis(a.num("deadline-ms", 10000));
	let nver = a.num("nver", 1) as usize;
	let with_faults = a.has("faults");

	// base files: concretised behaviours + the repository's fixtures
	let bases: std::sync::Mutex<Vec<(String, Vec<u8>)>> = std::sync::Mutex::new(vec![]);
	// structure-aware mutants of the generated files (the offsets of their events are known): extreme frame ids
	let structured: std::sync::Mutex<Vec<(String, String, Vec<u8>)>> = std::sync::Mutex::new(vec![]);
	if let Some(inp) = a.get("in") {
		crate::for_each_tagged(inp, "BEH", threads, a.num("stride", 1) as usize, a.num("max", u64::MAX) as usize, |idx, v| {
			let beh: Beh = serde_json::from_value(v).expect("BEH json");
			for ver in crate::pick_versions(&db, &beh, idx, nver, seed) {
				let mut o = GenOpts::new(seed ^ ((idx as u64) << 16), ver);
				o.plan = 1;
				let built = gen::build_beh(&db, &beh, &o);
				if idx % 5 == 0 {
					// the frame id of one event replaced by an extreme value (every event of the first dozen, then strided)
					let evs = gen::file_events(&beh);
					let mut st = structured.lock().unwrap();
					// the declared raw length such that the skip-frames jump 'to Game End' lands on each event instead
					for k in (0..built.ev_offs.len()).filter(|k| *k < 12 || k % 7 == 0) {
						let v = (built.ev_offs[k] - built.raw_start + 1 + built.end_block.len()) as u32;
						let mut b = built.bytes.clone();
						b[11..15].copy_from_slice(&v.to_be_bytes());
						st.push((format!("regime:{}", beh.reg), format!("raw_len->event#{}({})", k, evs.get(k).map_or("?", |e| e.k.as_str())), b));
					}
					for (k, e) in evs.iter().enumerate() {
						if !["fs", "pre", "post", "item", "fe"].contains(&e.k.as_str()) || (k >= 12 && k % 7 != 0) || k >= built.ev_offs.len() {
							continue;
						}
						for v in [i32::MAX, i32::MIN, i32::MAX - 1, i32::MIN + 1, -124, -125, i32::MIN + 123, i32::MAX - 123, 0] {
							let mut b = built.bytes.clone();
							let off = built.ev_offs[k] + 1;
							if off + 4 <= b.len() {
								b[off..off + 4].copy_from_slice(&v.to_be_bytes());
								st.push((format!("regime:{}", beh.reg), format!("frame_id[{}#{}]={}", e.k, k, v), b));
							}
						}
					}
				}
				bases.lock().unwrap().push((format!("regime:{}", beh.reg), built.bytes));
			}
		});
	}
	if let Some(dir) = a.get("fixtures") {
		let mut names: Vec<_> = std::fs::read_dir(dir).map(|d| d.filter_map(|e| e.ok()).map(|e| e.path()).collect()).unwrap_or_default();
		names.sort();
		for p in names {
			if p.extension().map_or(false, |e| e == "slp") {
				if let Ok(b) = std::fs::read(&p) {
					if b.len() <= a.num("fixture-max-bytes", 400_000) as usize {
						bases.lock().unwrap().push((format!("fixture:{}", p.file_name().unwrap().to_string_lossy()), b));
					}
				}
			}
		}
	}
	let bases = bases.into_inner().unwrap();
	let structured = structured.into_inner().unwrap();
	// a hung read leaves a spinning thread behind: after a few hangs (already reported) stop exploring
	let hangs = std::sync::atomic::AtomicUsize::new(0);
	let nfill = std::sync::atomic::AtomicUsize::new(0);
	// second pass: every LOGGER_STRIDE-th base file again with a logger installed at trace level
	let ls = crate::LOGGER_STRIDE.load(std::sync::atomic::Ordering::SeqCst);
	for logging in [false, true] {
	if logging && ls == 0 {
		break;
	}
	crate::set_logging(logging);
	let next = std::sync::atomic::AtomicUsize::new(0);
	std::thread::scope(|s| {
		for _ in 0..threads.max(1) {
			s.spawn(|| {
				let mut dog = Watchdog::new();
				loop {
					let i = next.fetch_add(1, std::sync::atomic::Ordering::SeqCst);
					if i >= bases.len() {
						return;
					}
					if logging && i % ls != 0 {
						continue;
					}
					let (name, base) = &bases[i];
					let mut r = Rng::keyed(seed, i as u64, 0xF022);
					sink.sample(|| json!({"base": name, "len": base.len(), "mutations": "header / payload-table / version edits + random flips, inserts, deletes, slice duplications; 4 option combinations + incremental API each"}));
					if with_faults && base.len() < 200_000 {
						check_faults(base, name, &sink);
					}
					let mut muts = mutants_of(base, &mut r, nrandom);
					if i % 3 == 0 {
						let sm = string_fill_mutants(&db, base);
						nfill.fetch_add(sm.len(), std::sync::atomic::Ordering::Relaxed);
						muts.extend(sm);
					}
					for (what, m) in muts {
						if hangs.load(std::sync::atomic::Ordering::SeqCst) >= 3 {
							return;
						}
						sink.count(fnv(&m), true);
						let m = std::sync::Arc::new(m);
						if let Some((kind, detail)) = all_reads(m.clone(), &mut dog, deadline) {
							if kind == "hang" {
								hangs.fetch_add(1, std::sync::atomic::Ordering::SeqCst);
							}
							let fam = what.split(|c| c == '=' || c == '[').next().unwrap_or(&what).to_string();
							let cls = format!("{},mutation:{},{}", name.split(':').next().unwrap(), fam, if kind == "panic" { panic_site(&detail) } else { String::new() });
							let v = viol("file_adversary", &cls, &kind, format!("{} on {}: {}", what, name, detail));
							sink.report(&v, &|| json!({"mutation": what, "base": name, "bytes_hex": crate::util::hex(&m[..m.len().min(1 << 20)])}));
						}
					}
				}
			});
		}
	});
	// the structure-aware mutants (every 4th again with the logger)
	let next2 = std::sync::atomic::AtomicUsize::new(0);
	std::thread::scope(|s| {
		for _ in 0..threads.max(1) {
			s.spawn(|| {
				let mut dog = Watchdog::new();
				loop {
					let i = next2.fetch_add(1, std::sync::atomic::Ordering::SeqCst);
					if i >= structured.len() || crate::streamchk::too_many_hangs() {
						return;
					}
					if logging && i % ls != 0 {
						continue;
					}
					let (name, what, m) = &structured[i];
					sink.count(fnv(m), true);
					let m = std::sync::Arc::new(m.clone());
					if let Some((kind, detail)) = all_reads(m.clone(), &mut dog, deadline) {
						let cls = format!("{},mutation:{},{}", name.split(':').next().unwrap(), if what.starts_with("raw_len") { "raw_len_event" } else { "frame_id" }, if kind == "panic" { panic_site(&detail) } else { String::new() });
						let v = viol("file_adversary", &cls, &kind, format!("{} on {}: {}", what, name, detail));
						sink.report(&v, &|| json!({"mutation": what, "base": name, "bytes_hex": crate::util::hex(&m[..m.len().min(1 << 20)])}));
					}
				}
			});
		}
	});
	}
	crate::set_logging(false);
	sink.summary(json!({"base_files": bases.len(), "string_field_fills": nfill.load(std::sync::atomic::Ordering::Relaxed), "frame_id_mutants": structured.len()}));
}

/// Grammar-aware corruption of the metadata element: every byte of it replaced by every value, and every position
/// followed by an inserted run of 0xFF bytes (length / type markers with extreme values).
pub fn cmd_meta_fuzz(a: &Args) {
	let db = LayoutDb::load(a.req("layout"));
	let sink = Sink::new(a.get("replay-dir").unwrap_or("work/replays"));
	let threads = a.num("threads", 8) as usize;
	let seed = a.num("seed", 1);
	let beh = crate::fields::simple_beh("C", &["single", "none", "none", "none"], 1, 0);
	let built = gen::build_beh(&db, &beh, &GenOpts::new(seed, [3, 12, 0]));
	let start = built.raw_end;
	let n = built.bytes.len();
	sink.sample(|| json!({"metadata_region": [start, n], "mutations": "each byte x 256 values; each position + inserted 0xFF runs and wide length markers"}));
	let positions: Vec<usize> = (start..n).collect();
	let next = std::sync::atomic::AtomicUsize::new(0);
	std::thread::scope(|s| {
		for _ in 0..threads.max(1) {
			s.spawn(|| {
				let mut dog = Watchdog::new();
				loop {
					let i = next.fetch_add(1, std::sync::atomic::Ordering::SeqCst);
					if i >= positions.len() {
						return;
					}
					let p = positions[i];
					let mut muts: Vec<Vec<u8>> = vec![];
					for v in 0..=255u8 {
						let mut b = built.bytes.clone();
						b[p] = v;
						muts.push(b);
					}
					for marker in [b'U', b'i', b'I', b'l', b'L', b'd', b'D', b'S', b'C', b'[', b'#', b'$'] {
						for fill in [0xFFu8, 0x80, 0x7F] {
							let mut b = built.bytes.clone();
							b[p] = marker;
							for _ in 0..8 {
								b.insert(p + 1, fill);
							}
							muts.push(b);
						}
					}
					for m in muts {
						sink.count(fnv(&m), true);
						let m = std::sync::Arc::new(m);
						if let Some((kind, detail)) = all_reads(m.clone(), &mut dog, Duration::from_secs(10)) {
							let cls = format!("metadata,{}", if kind == "panic" { panic_site(&detail) } else { String::new() });
							sink.report(&viol("metadata_adversary", &cls, &kind, format!("byte {} of the metadata element: {}", p - start, detail)), &|| json!({"bytes_hex": crate::util::hex(&m)}));
						}
					}
				}
			});
		}
	});
	sink.summary(json!({}));
}

/// Builds a file whose metadata is nested `depth` deep and reads it in a CHILD process so that a
/// stack overflow (process abort) is observed as data.
pub fn cmd_deep_meta(a: &Args) {
	let mut hung = false;
	let db = LayoutDb::load(a.req("layout"));
	let sink = Sink::new(a.get("replay-dir").unwrap_or("work/replays"));
	let depths: Vec<usize> = a.get("depths").unwrap_or("10,100,126,127,128,1000,5000,20000,100000,1000000").split(',').map(|s| s.parse().unwrap()).collect();
	let exe = std::env::current_exe().unwrap();
	let dir = format!("{}/deep", a.get("replay-dir").unwrap_or("work/replays"));
	std::fs::create_dir_all(&dir).ok();
	for d in depths {
		let beh = crate::fields::simple_beh("C", &["single", "none", "none", "none"], 1, 0);
		let mut o = GenOpts::new(7, [3, 9, 0]);
		let mut body = vec![];
		for _ in 0..d {
			body.extend_from_slice(&[b'U', 1, b'a', b'{']);
		}
		for _ in 0..d {
			body.push(b'}');
		}
		body.push(b'}');
		o.meta_body = Some(body);
		let built = gen::build_beh(&db, &beh, &o);
		let path = format!("{}/depth-{}.slp", dir, d);
		std::fs::write(&path, &built.bytes).unwrap();
		sink.count(d as u64, true);
		sink.sample(|| json!({"metadata_nesting_depth": d, "file_len": built.bytes.len()}));
		for mode in ["slp", "slp-to-slpp"] {
			// (a child that does not finish within a minute is killed and reported as a hang)
			let out = (|| -> std::io::Result<Option<std::process::Output>> {
				let mut child = std::process::Command::new(&exe).args(["probe-read", "--file", &path, "--mode", mode]).stdout(std::process::Stdio::piped()).stderr(std::process::Stdio::null()).spawn()?;
				let t0 = std::time::Instant::now();
				loop {
					if child.try_wait()?.is_some() {
						return child.wait_with_output().map(Some);
					}
					if t0.elapsed() > Duration::from_secs(60) {
						child.kill().ok();
						child.wait().ok();
						return Ok(None);
					}
					std::thread::sleep(Duration::from_millis(20));
				}
			})();
			let v = match out {
				Err(e) => Some(viol("deep_metadata", "probe", "err", format!("cannot run probe: {}", e))),
				Ok(None) => Some(viol("deep_metadata", &format!("mode:{},depth>={}", mode, bucket(d)), "hang", format!("depth {}: the read did not return within 60 s", d))),
				Ok(Some(o)) => {
					use std::os::unix::process::ExitStatusExt;
					let stdout = String::from_utf8_lossy(&o.stdout).to_string();
					if let Some(sig) = o.status.signal() {
						Some(viol("deep_metadata", &format!("mode:{},depth>={}", mode, bucket(d)), "abort", format!("depth {}: process killed by signal {} (stack overflow)", d, sig)))
					} else if o.status.code() == Some(101) || stdout.contains("PANIC") {
						Some(viol("deep_metadata", &format!("mode:{},depth>={}", mode, bucket(d)), "panic", format!("depth {}: {}", d, stdout.trim())))
					} else if stdout.contains("UNREADABLE") {
						Some(viol("deep_metadata_slpp", &format!("mode:{},depth>={}", mode, bucket(d)), "mismatch", format!("depth {}: {}", d, stdout.trim())))
					} else {
						None
					}
				}
			};
			if let Some(v) = v {
				sink.report(&v, &|| json!({"depth": d, "file": path}));
				if v.kind == "hang" {
					hung = true;
				}
			}
		}
		std::fs::remove_file(&path).ok();
		if hung {
			break; // every further depth would wait a minute as well
		}
	}
	sink.summary(json!({}));
}

fn bucket(d: usize) -> usize {
	if d >= 1000 {
		1000
	} else if d >= 127 {
		127
	} else {
		0
	}
}

/// Child-process probe: reads a file; prints OK / ERR / PANIC / UNREADABLE.
pub fn cmd_probe_read(a: &Args) {
	let bytes = std::fs::read(a.req("file")).unwrap();
	let mode = a.get("mode").unwrap_or("slp");
	match real::read_slp(&bytes, false, false) {
		Outcome::Ok(g) => {
			if mode == "slp-to-slpp" {
				// an accepted game must survive the trip through .slpp
				match real::write_slpp(g, real::Comp::None) {
					Outcome::Ok(arch) => match real::read_slpp(&arch, false) {
						Outcome::Ok(_) => println!("OK"),
						Outcome::Err(e) => println!("UNREADABLE the .slpp written from an accepted game cannot be read back: {}", e),
						Outcome::Panic(p) => println!("PANIC {}", p),
					},
					Outcome::Err(e) => println!("ERR write: {}", e),
					Outcome::Panic(p) => println!("PANIC {}", p),
				}
			} else {
				println!("OK");
			}
		}
		Outcome::Err(e) => println!("ERR {}", e),
		Outcome::Panic(p) => println!("PANIC {}", p),
	}
}

#[allow(dead_code)]
fn unused(_: BTreeMap<u8, u8>) {}
