//! pv: conformance harness binding the TLA+ specification (spec/) to the real peppi code.
//! Reads behaviours / edges / tables exported by TLC, concretises them, drives the real API,
//! compares the projection of the real state with the model's prediction, and prints one JSON
//! line per disagreement plus a summary line.

mod blocks;
mod checks;
mod container;
mod tarx;
mod cols;
mod expect;
mod fields;
mod gen;
mod layout;
mod real;
mod record;
mod robust;
mod session;
mod small;
mod stream;
mod streamchk;
mod util;

use std::collections::{BTreeMap, HashSet};
use std::io::{BufRead, Write};
use std::sync::atomic::{AtomicUsize, Ordering};
use std::sync::Mutex;

use serde_json::json;

use crate::gen::{Beh, GenOpts};
use crate::layout::LayoutDb;
use crate::util::{fnv, parse_tlc_line, Rng};

pub struct Args {
	pub cmd: String,
	pub kv: BTreeMap<String, String>,
}

impl Args {
	fn parse() -> Args {
		let mut it = std::env::args().skip(1);
		let cmd = it.next().unwrap_or_else(|| "help".into());
		let mut kv = BTreeMap::new();
		let rest: Vec<String> = it.collect();
		let mut i = 0;
		while i < rest.len() {
			let k = rest[i].trim_start_matches("--").to_string();
			if i + 1 < rest.len() && !rest[i + 1].starts_with("--") {
				kv.insert(k, rest[i + 1].clone());
				i += 2;
			} else {
				kv.insert(k, "1".into());
				i += 1;
			}
		}
		Args { cmd, kv }
	}
	pub fn get(&self, k: &str) -> Option<&str> {
		self.kv.get(k).map(|s| s.as_str())
	}
	pub fn req(&self, k: &str) -> &str {
		self.get(k).unwrap_or_else(|| panic!("missing --{}", k))
	}
	pub fn num(&self, k: &str, d: u64) -> u64 {
		self.get(k).map(|s| s.parse().unwrap()).unwrap_or(d)
	}
	pub fn has(&self, k: &str) -> bool {
		self.kv.contains_key(k)
	}
}

/// Shared sink for violations and summary counters.
pub struct Sink {
	pub out: Mutex<std::io::Stdout>,
	pub replay_dir: String,
	pub nviol: AtomicUsize,
	pub evals: AtomicUsize,
	pub distinct: Mutex<HashSet<u64>>,
	pub nontrivial: Mutex<HashSet<u64>>,
	pub samples: Mutex<Vec<serde_json::Value>>,
	pub max_replays: usize,
}

impl Sink {
	pub fn new(replay_dir: &str) -> Sink {
		std::fs::create_dir_all(replay_dir).ok();
		Sink {
			out: Mutex::new(std::io::stdout()),
			replay_dir: replay_dir.to_string(),
			nviol: AtomicUsize::new(0),
			evals: AtomicUsize::new(0),
			distinct: Mutex::new(HashSet::new()),
			nontrivial: Mutex::new(HashSet::new()),
			samples: Mutex::new(vec![]),
			max_replays: 200,
		}
	}
	pub fn report(&self, v: &checks::Viol, replay: &dyn Fn() -> serde_json::Value) {
		let n = self.nviol.fetch_add(1, Ordering::SeqCst);
		let path = if n < self.max_replays {
			let p = format!("{}/replay-{}-{}.json", self.replay_dir, v.check, n);
			let mut rec = replay();
			rec["viol"] = serde_json::to_value(v).unwrap();
			rec["logger_installed"] = json!(LOGGING.load(Ordering::SeqCst));
			std::fs::write(&p, serde_json::to_vec(&rec).unwrap()).ok();
			p
		} else {
			String::new()
		};
		let line = json!({"t": "viol", "check": v.check, "class": v.class, "kind": v.kind, "detail": if LOGGING.load(Ordering::SeqCst) { format!("{} [with a logger installed at trace level]", v.detail) } else { v.detail.clone() }, "replay": path});
		let mut o = self.out.lock().unwrap();
		writeln!(o, "{}", line).ok();
	}
	pub fn count(&self, key: u64, nontrivial: bool) {
		self.evals.fetch_add(1, Ordering::Relaxed);
		self.distinct.lock().unwrap().insert(key);
		if nontrivial {
			self.nontrivial.lock().unwrap().insert(key);
		}
	}
	pub fn sample(&self, v: impl FnOnce() -> serde_json::Value) {
		let mut s = self.samples.lock().unwrap();
		if s.len() < 3 {
			s.push(v());
		}
	}
	pub fn summary(&self, extra: serde_json::Value) {
		let line = json!({
			"t": "summary",
			"evaluations": self.evals.load(Ordering::SeqCst),
			"distinct": self.distinct.lock().unwrap().len(),
			"distinct_nontrivial": self.nontrivial.lock().unwrap().len(),
			"violations": self.nviol.load(Ordering::SeqCst),
			"samples": *self.samples.lock().unwrap(),
			"extra": extra,
		});
		let mut o = self.out.lock().unwrap();
		writeln!(o, "{}", line).ok();
	}
}

/// Runs one work item; an assertion of the harness failing inside it (the real code returned something the
/// harness did not expect) is reported as a violation instead of aborting the whole run.
/// Work items in progress, per thread: (start, label, description).  A monitor thread reports an item that does
/// not finish (code under test that loops forever inside a call no check expected to hang) and ends the run.
static IN_PROGRESS: Mutex<Vec<(std::thread::ThreadId, std::time::Instant, String, String)>> = Mutex::new(Vec::new());

fn start_stall_monitor(limit: std::time::Duration, replay_dir: String) {
	std::thread::spawn(move || loop {
		std::thread::sleep(std::time::Duration::from_millis(500));
		let stuck = IN_PROGRESS.lock().unwrap().iter().find(|e| e.1.elapsed() > limit).map(|e| (e.2.clone(), e.3.clone()));
		if let Some((label, what)) = stuck {
			std::fs::create_dir_all(&replay_dir).ok();
			let path = format!("{}/replay-work_item_hang-{}.json", replay_dir, std::process::id());
			std::fs::write(&path, serde_json::to_vec(&json!({"label": label, "item": what})).unwrap()).ok();
			let line = json!({"t": "viol", "check": "work_item_hang", "class": label, "kind": "hang",
				"detail": format!("a work item did not finish within {:?}: {}", limit, &what[..what.len().min(400)]), "replay": path});
			println!("{}", line);
			println!("{}", json!({"t": "summary", "evaluations": 0, "distinct": 0, "distinct_nontrivial": 0, "violations": 1, "samples": [], "extra": {"aborted": "a work item hung"}}));
			std::process::exit(0);
		}
	});
}

pub fn item_guard(label: &str, f: impl FnOnce()) {
	item_guard_desc(label, "", f)
}

pub fn item_guard_desc(label: &str, what: &str, f: impl FnOnce()) {
	util::install_panic_hook();
	let me = std::thread::current().id();
	IN_PROGRESS.lock().unwrap().push((me, std::time::Instant::now(), label.to_string(), what.to_string()));
	let res = util::guard_plain(f);
	IN_PROGRESS.lock().unwrap().retain(|e| e.0 != me);
	if let util::Outcome::Panic(p) = res {
		let line = json!({"t": "viol", "check": "harness_assert", "class": label, "kind": "mismatch",
			"detail": format!("an expectation of the harness about the code's result failed: {}", p), "replay": ""});
		println!("{}", line);
	}
}

/// Runs `f` over the tagged lines of a TLC output file on `threads` threads.
/// A logger that formats every record and throws it away: with it enabled, the argument expressions of the
/// library's log statements are evaluated (they are not when no logger is installed, as under `cargo test`).
struct EvalLogger;

impl log::Log for EvalLogger {
	fn enabled(&self, _: &log::Metadata) -> bool {
		true
	}
	fn log(&self, r: &log::Record) {
		let _ = format!("{}", r.args());
	}
	fn flush(&self) {}
}

static EVAL_LOGGER: EvalLogger = EvalLogger;
/// every N-th work item is run a second time with logging enabled (0: never)
pub static LOGGER_STRIDE: AtomicUsize = AtomicUsize::new(0);
pub static LOGGING: std::sync::atomic::AtomicBool = std::sync::atomic::AtomicBool::new(false);

pub fn set_logging(on: bool) {
	log::set_max_level(if on { log::LevelFilter::Trace } else { log::LevelFilter::Off });
	LOGGING.store(on, Ordering::SeqCst);
}

/// Runs `f` on every tagged line of a TLC output file; then once more, with logging enabled, on every
/// LOGGER_STRIDE-th of them.
pub fn for_each_tagged<F>(path: &str, tag: &str, threads: usize, stride: usize, max: usize, f: F) -> usize
where
	F: Fn(usize, serde_json::Value) + Sync,
{
	let n = for_each_tagged_pass(path, tag, threads, stride, max, 1, &f);
	let ls = LOGGER_STRIDE.load(Ordering::SeqCst);
	if ls > 0 && !LOGGING.load(Ordering::SeqCst) {
		set_logging(true);
		for_each_tagged_pass(path, tag, threads, stride, max, ls, &f);
		set_logging(false);
	}
	n
}

fn for_each_tagged_pass<F>(path: &str, tag: &str, threads: usize, stride: usize, max: usize, only_every: usize, f: &F) -> usize
where
	F: Fn(usize, serde_json::Value) + Sync,
{
	let file = std::fs::File::open(path).unwrap_or_else(|e| panic!("{}: {}", path, e));
	let reader = Mutex::new((std::io::BufReader::new(file).lines(), 0usize, 0usize));
	let prefix = format!("<<\"{}\"", tag);
	std::thread::scope(|s| {
		for _ in 0..threads.max(1) {
			s.spawn(|| loop {
				let (idx, line) = {
					let mut g = reader.lock().unwrap();
					let mut got = None;
					while let Some(l) = g.0.next() {
						let l = match l {
							Ok(l) => l,
							Err(_) => continue,
						};
						if !l.starts_with(&prefix) {
							continue;
						}
						let seen = g.1;
						g.1 += 1;
						if seen % stride.max(1) != 0 {
							continue;
						}
						if g.2 >= max {
							break;
						}
						g.2 += 1;
						got = Some((seen, l));
						break;
					}
					match got {
						Some(x) => x,
						None => return,
					}
				};
				if idx % only_every.max(1) != 0 {
					continue;
				}
				if streamchk::too_many_hangs() {
					return;
				}
				if let Some((_, v)) = parse_tlc_line(&line) {
					item_guard_desc(tag, line.get(..2000).unwrap_or(&line), || f(idx, v));
				}
			});
		}
	});
	let g = reader.lock().unwrap();
	g.2
}

pub fn pick_versions(db: &LayoutDb, beh: &Beh, idx: usize, nver: usize, seed: u64) -> Vec<[u8; 3]> {
	let all = gen::versions_for(db, beh);
	if all.is_empty() {
		return vec![];
	}
	// the first version of every layout class and the last version of the class before it
	let mut bounds: Vec<(u8, u8)> = vec![];
	for b in db.class_boundaries() {
		if b.1 > 0 && all.contains(&(b.0, b.1 - 1)) && !bounds.contains(&(b.0, b.1 - 1)) {
			bounds.push((b.0, b.1 - 1));
		}
		if all.contains(&b) && !bounds.contains(&b) {
			bounds.push(b);
		}
	}
	let mut out: Vec<(u8, u8)> = vec![];
	let mut r = Rng::keyed(seed, idx as u64, 0x7E5);
	if nver >= all.len() {
		out = all.clone();
	} else {
		// rotate through the layout classes and through all versions so that the whole
		// (behaviour class x version) grid is hit across behaviours
		for j in 0..nver {
			let v = if j % 2 == 0 && !bounds.is_empty() {
				bounds[(idx * ((nver + 1) / 2) + j / 2) % bounds.len()]
			} else {
				all[(idx * nver + j + r.below(all.len() as u64) as usize) % all.len()]
			};
			if !out.contains(&v) {
				out.push(v);
			}
		}
	}
	let max = db.blocks.max_supported;
	out.into_iter()
		.map(|(a, b)| {
			// the patch component is free except at the ceiling, where the writers compare it
			let patch = if (a, b) == (max[0], max[1]) { 0 } else { r.byte() };
			[a, b, patch]
		})
		.collect()
}

fn cmd_replay_beh(a: &Args) {
	let db = LayoutDb::load(a.req("layout"));
	let sink = Sink::new(a.get("replay-dir").unwrap_or("work/replays"));
	let seed = a.num("seed", 1);
	let nver = a.num("nver", 4) as usize;
	let threads = a.num("threads", 8) as usize;
	let stride = a.num("stride", 1) as usize;
	let max = a.num("max", u64::MAX) as usize;
	let checks: Vec<String> = a.req("checks").split(',').map(|s| s.to_string()).collect();
	let comps: Vec<real::Comp> = match a.get("comps") {
		None => real::Comp::all().to_vec(),
		Some(s) => s
			.split(',')
			.map(|c| match c {
				"none" => real::Comp::None,
				"lz4" => real::Comp::Lz4,
				"zstd" => real::Comp::Zstd,
				_ => panic!("comp {}", c),
			})
			.collect(),
	};
	let nbeh = for_each_tagged(a.req("in"), "BEH", threads, stride, max, |idx, v| {
		let mut beh: Beh = match serde_json::from_value(v) {
			Ok(b) => b,
			Err(e) => panic!("bad BEH line {}: {}", idx, e),
		};
		// frame ids are arbitrary 32-bit integers where frames are explicit (2.2+): every 8th behaviour is shifted to
		// the top of the range, every 16th to the bottom (the model's ids are relative)
		if beh.reg != "A" && idx % 8 == 5 && !beh.fin.ids.is_empty() {
			let (lo, hi) = (*beh.fin.ids.iter().min().unwrap() as i64, *beh.fin.ids.iter().max().unwrap() as i64);
			let delta: i64 = if idx % 16 == 5 { i32::MAX as i64 - hi } else { i32::MIN as i64 - lo };
			for e in beh.hist.iter_mut().chain(beh.emit.iter_mut()) {
				if ["fs", "pre", "post", "item", "fe"].contains(&e.k.as_str()) {
					e.id += delta;
				}
			}
			for i in beh.fin.ids.iter_mut() {
				*i = (*i as i64 + delta) as i32;
			}
		}
		let nontrivial = !beh.fin.ids.is_empty();
		for (vi, ver) in pick_versions(&db, &beh, idx, nver, seed).into_iter().enumerate() {
			let mut o = GenOpts::new(seed ^ ((idx as u64) << 20) ^ vi as u64, ver);
			o.plan = ((idx + vi) % 2) as u8;
			if beh.hist.iter().any(|e| e.k == "unk") || beh.tail_unk != [0, 0] {
				o.unk_sizes.insert(64, [1u16, 7, 600, 65535][(idx + vi) % 4]);
			}
			let built = gen::build_beh(&db, &beh, &o);
			let key = fnv(&built.bytes);
			sink.count(key, nontrivial);
			sink.sample(|| json!({"regime": beh.reg, "occ": beh.occ, "version": ver, "events": beh.hist.iter().map(|e| format!("{}:{}:{}:{}", e.k, e.id, e.p, e.f)).collect::<Vec<_>>(), "file_len": built.bytes.len()}));
			let ctx = checks::Ctx::new(&db, &beh, &built);
			let mut viols = vec![];
			for c in &checks {
				match c.as_str() {
					"c01" => ctx.c01_roundtrip(&mut viols),
					"c03" => ctx.c03_fields(true, true, &mut viols),
					"c04" => ctx.c04_oneshot(&mut viols),
					"wrap" => ctx.c04_wrapped(&mut viols),
					"inc04" => ctx.incremental("c04", stream::Frag::Whole, &mut viols),
					"inc12" => {
						ctx.incremental("c12", stream::Frag::Whole, &mut viols);
						ctx.incremental("c12", stream::Frag::Fixed(1 + (idx + vi) % 7), &mut viols);
						ctx.incremental("c12", stream::Frag::RandomIntr(seed ^ idx as u64), &mut viols);
					}
					"inc13" => ctx.incremental("c13", stream::Frag::Whole, &mut viols),
					"rows" => ctx.rowview(&mut viols),
					"arrow" => ctx.arrow(&mut viols),
					"c17" => {
						let mut oc = o.clone();
						oc.unk_sizes.clear();
						let table: Vec<String> = beh.table.iter().filter(|k| db.for_version(ver[0], ver[1]).gecko || (*k != "gecko" && *k != "split")).cloned().collect();
						let canon = gen::build_file(&db, &beh.occ, &beh.emit, &table, beh.fin.gactual, beh.meta == "some", 0, &oc);
						ctx.c17(&canon, &mut viols)
					}
					"c08" => ctx.c08_insertions(&o, &mut viols),
					"c17ins" => {
						ctx.c17_insertions(&o, &mut viols);
						ctx.c17_sizes(&o, &mut viols);
						if idx % 3 == 0 {
							ctx.c17_metadata_types(&o, &mut viols)
						}
					}
					"debug" => {
						let dir = std::path::PathBuf::from(format!("{}/dump-{}-{}-{}", sink.replay_dir, std::process::id(), idx, vi));
						ctx.debug_dump(&dir, &mut viols)
					}
					"slpp" => ctx.slpp_roundtrip(&comps, (idx + vi) % 2 == 0, &mut viols),
					other => panic!("unknown check {}", other),
				}
			}
			for v in &viols {
				sink.report(v, &|| checks::replay_record(&beh, &built, o.seed, o.plan));
			}
		}
	});
	sink.summary(json!({"behaviours": nbeh}));
}

/// Games far beyond the model's bounds in SIZE (more than 65 535 frames, more than 65 535 items, more than
/// 255 items in one frame, Gecko lists of hundreds of blocks): counts and offsets that do not fit 8 or 16 bits.
/// The behaviours are the canonical full-presence histories; the checks are the same as for the model's behaviours.
fn cmd_scale(a: &Args) {
	let db = LayoutDb::load(a.req("layout"));
	let sink = Sink::new(a.get("replay-dir").unwrap_or("work/replays"));
	let seed = a.num("seed", 1);
	let checks: Vec<String> = a.req("checks").split(',').map(|s| s.to_string()).collect();
	let big = a.num("frames", 66_000) as usize;
	let shapes: Vec<(&str, [u8; 3], Vec<&str>, usize, usize, usize)> = vec![
		("C", [3, 16, 0], vec!["single", "none", "none", "none"], big, 1, 0),
		("C", [3, 7, 0], vec!["ic", "single", "none", "none"], 3, 300, 0),
		("A", [1, 0, 0], vec!["single", "single", "ic", "single"], big / 3, 0, 0),
		("C", [3, 12, 0], vec!["none", "single", "none", "single"], 2, 1, 300),
		("B", [2, 2, 0], vec!["none", "none", "none", "single"], big, 0, 0),
	];
	// deep rollbacks (a netplay rollback re-simulates up to 7 frames; nothing in the format limits it), gaps, and an id
	// revisited after a gap -- small enough for the per-event checks (from 2.2 on: before that frame ids are
	// consecutive, there are no rollbacks)
	let mut r = util::Rng::new(seed ^ 0x2011);
	let mut rb: Vec<(&str, [u8; 3], Vec<&str>, Vec<i64>, usize)> = vec![];
	for (k, (reg, ver, occ)) in [("C", [3u8, 16u8, 0u8], vec!["single", "ic", "none", "none"]), ("B", [2, 2, 0], vec!["single", "none", "none", "single"]), ("B", [2, 9, 0], vec!["ic", "single", "none", "none"]), ("C", [3, 0, 0], vec!["none", "single", "single", "none"])]
		.into_iter()
		.enumerate()
	{
		let mut ids: Vec<i64> = (-123..-100).collect();
		// back by 8, 15 and 23 frames, re-simulating forward each time; then a gap; then back before the gap
		for depth in [8i64, 15, 23] {
			let top = *ids.last().unwrap();
			ids.extend((top - depth + 1)..=(top + 2));
		}
		let top = *ids.last().unwrap();
		ids.extend([top + 40, top + 41, top + 1, top + 2, top + 41, top + 42]);
		for _ in 0..k {
			let top = *ids.last().unwrap();
			ids.push(top - 1 - r.below(30) as i64);
		}
		rb.push((reg, ver, occ, ids, if reg == "C" { 1 + k % 2 } else { 0 }));
	}
	for (i, (reg, ver, occ, ids, ni)) in rb.iter().enumerate() {
		if a.get("only") == Some("big") {
			break;
		}
		let beh = fields::simple_beh_ids(reg, occ, ids, *ni, 0);
		let mut o = GenOpts::new(seed ^ (0xDEE9 + i as u64), *ver);
		o.plan = 1;
		let built = gen::build_beh(&db, &beh, &o);
		sink.count(fnv(&built.bytes), true);
		sink.sample(|| json!({"regime": reg, "occ": occ, "version": ver, "frame_ids": ids, "file_len": built.bytes.len()}));
		let mut viols = vec![];
		item_guard("scale", || {
			let ctx = checks::Ctx::new(&db, &beh, &built);
			for c in &checks {
				match c.as_str() {
					"c01" => ctx.c01_roundtrip(&mut viols),
					"c04" => {
						ctx.c04_oneshot(&mut viols);
						ctx.incremental("c04", stream::Frag::Whole, &mut viols)
					}
					"rows" => {
						ctx.rowview(&mut viols);
						ctx.incremental("c13", stream::Frag::Whole, &mut viols)
					}
					"arrow" => ctx.arrow(&mut viols),
					"slpp" => ctx.slpp_roundtrip(&[real::Comp::all()[i % 3]], i % 2 == 0, &mut viols),
					"inc12" => {
						ctx.incremental("c12", stream::Frag::Fixed(1 + i % 7), &mut viols);
						ctx.incremental("c12", stream::Frag::RandomIntr(seed ^ i as u64), &mut viols)
					}
					other => panic!("unknown check {}", other),
				}
			}
		});
		for v in &viols {
			sink.report(v, &|| checks::replay_record(&beh, &built, o.seed, o.plan));
		}
	}
	// absences across the word and capacity boundaries of the validity bitmaps (rows 63/64/65, 127/128, 1023/1024/1025,
	// 2047/2048), a character absent from the first rows, one absent from row 2100 to the end, a follower absent for a stretch
	if a.get("only") != Some("big") {
		for (i, (reg, ver, occ)) in [("C", [3u8, 16u8, 0u8], vec!["ic", "single", "none", "single"]), ("B", [2, 2, 0], vec!["single", "ic", "none", "none"]), ("A", [1, 4, 0], vec!["single", "single", "ic", "none"]), ("C", [3, 5, 0], vec!["single", "none", "single", "none"])]
			.into_iter()
			.enumerate()
		{
			let n = 2200usize;
			let ids: Vec<i64> = (0..n as i64).map(|k| -123 + k).collect();
			let nchars = occ.iter().map(|o| match *o { "none" => 0, "ic" => 2, _ => 1 }).sum::<usize>();
			let absent = |f: usize, c: usize| -> bool {
				if c == 0 {
					return false; // (one character is always there: before 2.2 a frame needs a Pre event)
				}
				if c == 1 {
					return (60..70).contains(&f) || (1020..1030).contains(&f) || [0usize, 63, 64, 65, 127, 128, 1023, 1024, 1025, 2047, 2048].contains(&(f + i));
				}
				if c == nchars - 1 {
					return f < 5 || f >= 2100;
				}
				f % 97 == 3
			};
			let beh = fields::simple_beh_absent(reg, &occ, &ids, if reg == "C" { 1 } else { 0 }, 0, &absent);
			let mut o = GenOpts::new(seed ^ (0xAB5E + i as u64), ver);
			o.plan = 1;
			let built = gen::build_beh(&db, &beh, &o);
			sink.count(fnv(&built.bytes), true);
			sink.sample(|| json!({"regime": reg, "occ": occ, "version": ver, "frames": n, "absences": "rows 0, 63-65, 127-128, 1023-1025, 2047-2048, stretches 60-69 and 1020-1029, first 5 rows, rows 2100 to the end", "file_len": built.bytes.len()}));
			let mut viols = vec![];
			item_guard("scale", || {
				let ctx = checks::Ctx::new(&db, &beh, &built);
				for c in &checks {
					match c.as_str() {
						"c01" => ctx.c01_roundtrip(&mut viols),
						"c04" => ctx.c04_oneshot(&mut viols),
					"wrap" => ctx.c04_wrapped(&mut viols),
						"rows" => ctx.rowview(&mut viols),
						"arrow" => ctx.arrow(&mut viols),
						"slpp" => ctx.slpp_roundtrip(&[real::Comp::all()[i % 3]], i % 2 == 0, &mut viols),
						"inc12" => {}
						other => panic!("unknown check {}", other),
					}
				}
			});
			for v in &viols {
				sink.report(v, &|| json!({"scale_absent_shape": i, "regime": reg, "occ": occ, "version": ver, "frames": n, "seed": o.seed}));
			}
		}
	}
	let only: Option<usize> = if a.get("only") == Some("small") { Some(usize::MAX) } else { None };
	for (i, (reg, ver, occ, nf, ni, ng)) in shapes.iter().enumerate() {
		if only.map_or(false, |o| o != i) {
			continue;
		}
		let beh = fields::simple_beh_gecko(reg, occ, *nf, *ni, *ng);
		let mut o = GenOpts::new(seed ^ (0x5CA1E + i as u64), *ver);
		o.plan = 1;
		let built = gen::build_beh(&db, &beh, &o);
		sink.count(fnv(&built.bytes), true);
		sink.sample(|| json!({"regime": reg, "occ": occ, "version": ver, "frames": nf, "items_per_frame": ni, "gecko_blocks": ng, "file_len": built.bytes.len()}));
		let mut viols = vec![];
		item_guard("scale", || {
			let ctx = checks::Ctx::new(&db, &beh, &built);
			for c in &checks {
				match c.as_str() {
					"c01" => ctx.c01_roundtrip(&mut viols),
					"c04" => ctx.c04_oneshot(&mut viols),
					"wrap" => ctx.c04_wrapped(&mut viols),
					"rows" => ctx.rowview(&mut viols),
					"arrow" => ctx.arrow(&mut viols),
					"slpp" => ctx.slpp_roundtrip(&[real::Comp::all()[i % 3]], i % 2 == 0, &mut viols),
					"inc12" => {} // (the per-event comparison is quadratic: only on the small deep-rollback shapes above)
					other => panic!("unknown check {}", other),
				}
			}
		});
		for v in &viols {
			// (the files are large: the replay record holds the recipe, not the bytes)
			sink.report(v, &|| json!({"scale_shape": i, "regime": reg, "occ": occ, "version": ver, "frames": nf, "items_per_frame": ni, "gecko_blocks": ng, "seed": o.seed}));
		}
	}
	sink.summary(json!({"shapes": shapes.len()}));
}

/// C08: versions above the ceiling (other majors included) with longer payloads.
fn cmd_newer(a: &Args) {
	let db = LayoutDb::load(a.req("layout"));
	let sink = Sink::new(a.get("replay-dir").unwrap_or("work/replays"));
	let seed = a.num("seed", 1);
	let threads = a.num("threads", 8) as usize;
	let vers: [[u8; 3]; 7] = [[3, 17, 0], [3, 16, 1], [3, 255, 7], [4, 0, 0], [9, 9, 9], [200, 1, 2], [255, 255, 255]];
	let extras = [0usize, 1, 4, 37];
	let n = for_each_tagged(a.req("in"), "BEH", threads, a.num("stride", 1) as usize, a.num("max", u64::MAX) as usize, |idx, v| {
		let beh: Beh = serde_json::from_value(v).expect("BEH json");
		if beh.reg != "C" {
			return;
		}
		for (vi, ver) in vers.iter().enumerate() {
			let extra = extras[(idx + vi) % extras.len()];
			let mut o = GenOpts::new(seed ^ ((idx as u64) << 20) ^ vi as u64, *ver);
			o.extra = extra;
			let built = gen::build_beh(&db, &beh, &o);
			sink.count(fnv(&built.bytes), extra > 0);
			sink.sample(|| json!({"version": ver, "extra_trailing_bytes_per_event": extra, "events": beh.hist.len(), "file_len": built.bytes.len()}));
			let ctx = checks::Ctx::new(&db, &beh, &built);
			let mut viols = vec![];
			ctx.c08_newer(&mut viols);
			for v in &viols {
				sink.report(v, &|| checks::replay_record(&beh, &built, o.seed, o.plan));
			}
		}
	});
	sink.summary(json!({"behaviours": n}));
}

fn main() {
	let a = Args::parse();
	util::install_panic_hook();
	// logging: off, as under `cargo test`; every `--logger-pass`-th work item is repeated with a logger at trace level
	let _ = log::set_logger(&EVAL_LOGGER);
	set_logging(false);
	LOGGER_STRIDE.store(a.num("logger-pass", 4) as usize, Ordering::SeqCst);
	start_stall_monitor(std::time::Duration::from_secs(a.num("stall-secs", 150)), a.get("replay-dir").unwrap_or("work/replays").to_string());
	match a.cmd.as_str() {
		"replay-beh" => cmd_replay_beh(&a),
		"fields" => fields::cmd_fields(&a),
		"version20" => small::cmd_version20(&a),
		"version09" => small::cmd_version09(&a),
		"rollbacks" => small::cmd_rollbacks(&a),
		"sjis" => small::cmd_sjis(&a),
		"replay" => {
			// re-executes the generic probes on the bytes stored in a replay file and prints what the code does now
			let rec: serde_json::Value = serde_json::from_slice(&std::fs::read(a.req("file")).unwrap()).unwrap();
			println!("recorded violation: {}", rec.get("viol").map(|v| v.to_string()).unwrap_or_default());
			let hex = rec.get("bytes_hex").or_else(|| rec.get("slp_hex")).and_then(|v| v.as_str()).unwrap_or("");
			if hex.is_empty() {
				println!("(this replay file carries no input bytes: {})", rec.as_object().map(|o| o.keys().cloned().collect::<Vec<_>>().join(", ")).unwrap_or_default());
				return;
			}
			let bytes = util::unhex(hex);
			println!("input: {} bytes", bytes.len());
			for (skip, hash) in [(false, false), (false, true), (true, false), (true, true)] {
				let o = real::read_slp(&bytes, skip, hash);
				println!("slippi::read skip={} hash={}: {} {}", skip, hash, o.kind(), o.detail());
				if let util::Outcome::Ok(g) = o {
					println!("  frames={} end={} metadata={} gecko={} hash={:?} quirks={:?}", g.frames.id.len(), g.end.is_some(), g.metadata.is_some(), g.gecko_codes.is_some(), g.hash, g.quirks);
					let w = real::write_slp(&g);
					match &w {
						util::Outcome::Ok(w) => println!("  slippi::write: ok, {} bytes, first difference from the input: {:?}", w.len(), util::first_diff(w, &bytes)),
						o => println!("  slippi::write: {} {}", o.kind(), o.detail()),
					}
					for comp in real::Comp::all() {
						if skip {
							break;
						}
						let g2 = real::read_slp(&bytes, false, hash).ok().unwrap();
						match real::write_slpp(g2, comp) {
							util::Outcome::Ok(arch) => match real::read_slpp(&arch, false) {
								util::Outcome::Ok(g3) => println!("  .slpp ({}) {} bytes: read back ok; re-serialised differs at {:?}", comp.name(), arch.len(), real::write_slp(&g3).ok().map(|w| util::first_diff(&w, &bytes))),
								o => println!("  .slpp ({}) read back: {} {}", comp.name(), o.kind(), o.detail()),
							},
							o => println!("  .slpp ({}) write: {} {}", comp.name(), o.kind(), o.detail()),
						}
					}
				}
			}
		}
		"dump-slpp" => {
			let b = std::fs::read(a.req("file")).unwrap();
			let g = real::read_slp(&b, false, true).ok().unwrap();
			let arch = real::write_slpp(g, real::Comp::None).ok().unwrap();
			std::fs::write(a.req("out"), &arch).unwrap();
		}
		"record" => record::cmd_record(&a),
		"blocks" => blocks::cmd_blocks(&a),
		"ubjson" => container::cmd_ubjson(&a),
		"slpp" => container::cmd_slpp(&a),
		"session" => session::cmd_session(&a),
		"edges" => robust::cmd_edges(&a),
		"newer" => cmd_newer(&a),
		"scale" => cmd_scale(&a),
		"fuzz" => robust::cmd_fuzz(&a),
		"deep-meta" => robust::cmd_deep_meta(&a),
		"meta-fuzz" => robust::cmd_meta_fuzz(&a),
		"probe-read" => robust::cmd_probe_read(&a),
		"sched" => streamchk::cmd_sched(&a),
		"cuts" => streamchk::cmd_cuts(&a),
		"skip" => streamchk::cmd_skip(&a),
		_ => {
			eprintln!("usage: pv <replay-beh|...> --key value ...");
			std::process::exit(2);
		}
	}
}
