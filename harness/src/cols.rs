//! The abstraction function: real peppi frame data -> name-addressed columns of raw bit patterns.
//! Four sources: the finished (immutable) frames, the in-progress (mutable) frames, the Arrow
//! struct array (walked generically by field name), and the single-row view (transposed frames).

use std::collections::BTreeMap;

use arrow2::array::{Array, ListArray, MutableArray, MutablePrimitiveArray, PrimitiveArray, StructArray};
use arrow2::bitmap::{Bitmap, MutableBitmap};
use arrow2::datatypes::DataType;
use arrow2::types::NativeType;

use peppi::frame::{immutable as im, mutable as mu, transpose as tr};

pub trait Bits: Copy {
	const TY: &'static str;
	fn bits(self) -> u64;
}
macro_rules! bits_int {
	($t:ty, $u:ty, $n:expr) => {
		impl Bits for $t {
			const TY: &'static str = $n;
			fn bits(self) -> u64 {
				(self as $u) as u64
			}
		}
	};
}
bits_int!(u8, u8, "u8");
bits_int!(i8, u8, "i8");
bits_int!(u16, u16, "u16");
bits_int!(i16, u16, "i16");
bits_int!(u32, u32, "u32");
bits_int!(i32, u32, "i32");
impl Bits for f32 {
	const TY: &'static str = "f32";
	fn bits(self) -> u64 {
		self.to_bits() as u64
	}
}

#[derive(Debug, Clone, PartialEq)]
pub struct Col {
	pub ty: String,
	pub vals: Vec<u64>,
}

/// Name-addressed view of frame data.
#[derive(Debug, Clone, Default, PartialEq)]
pub struct Cols {
	/// leaf path -> column (e.g. "ports.P1.leader.pre.position.x")
	pub leaves: BTreeMap<String, Col>,
	/// character path ("ports.P1.leader") -> presence per row
	pub present: BTreeMap<String, Vec<bool>>,
	/// item offsets (len = rows + 1), when the version has items
	pub item_off: Option<Vec<i64>>,
	/// entry counts of structs that may have no value column at all (the frame-end struct before it had
	/// any field keeps its one-entry-per-row record in its validity bitmap)
	pub aux_len: BTreeMap<String, usize>,
}

fn col_imm<T: NativeType + Bits>(a: &PrimitiveArray<T>) -> Col {
	Col {
		ty: T::TY.to_string(),
		vals: a.values().iter().map(|v| v.bits()).collect(),
	}
}
fn col_mut<T: NativeType + Bits>(a: &MutablePrimitiveArray<T>) -> Col {
	Col {
		ty: T::TY.to_string(),
		vals: a.values().iter().map(|v| v.bits()).collect(),
	}
}

fn valid_imm(v: &Option<Bitmap>, len: usize) -> Vec<bool> {
	match v {
		Some(b) => b.iter().collect(),
		None => vec![true; len],
	}
}
fn valid_mut(v: &Option<MutableBitmap>, len: usize) -> Vec<bool> {
	match v {
		Some(b) => b.iter().collect(),
		None => vec![true; len],
	}
}

macro_rules! leaf {
	($out:expr, $pfx:expr, $name:expr, $f:ident, $e:expr) => {
		$out.leaves.insert(format!("{}{}", $pfx, $name), $f(&$e));
	};
}
macro_rules! leaf_opt {
	($out:expr, $pfx:expr, $name:expr, $f:ident, $e:expr) => {
		if let Some(a) = &$e {
			$out.leaves.insert(format!("{}{}", $pfx, $name), $f(a));
		}
	};
}

// The field lists below only bind NAMES to struct members; values are compared against the
// bytes at the offsets given by the TLA+ layout, so a mis-binding here shows up as a mismatch
// on the unchanged tree (calibrated by `selftest`).
macro_rules! walk_structs {
	($modname:ident, $m:ident, $f:ident) => {
		pub mod $modname {
			use super::*;
			pub fn position(out: &mut Cols, pfx: &str, x: &$m::Position) {
				leaf!(out, pfx, "x", $f, x.x);
				leaf!(out, pfx, "y", $f, x.y);
			}
			pub fn velocity(out: &mut Cols, pfx: &str, x: &$m::Velocity) {
				leaf!(out, pfx, "x", $f, x.x);
				leaf!(out, pfx, "y", $f, x.y);
			}
			pub fn triggers_physical(out: &mut Cols, pfx: &str, x: &$m::TriggersPhysical) {
				leaf!(out, pfx, "l", $f, x.l);
				leaf!(out, pfx, "r", $f, x.r);
			}
			pub fn state_flags(out: &mut Cols, pfx: &str, x: &$m::StateFlags) {
				leaf!(out, pfx, "0", $f, x.0);
				leaf!(out, pfx, "1", $f, x.1);
				leaf!(out, pfx, "2", $f, x.2);
				leaf!(out, pfx, "3", $f, x.3);
				leaf!(out, pfx, "4", $f, x.4);
			}
			pub fn item_misc(out: &mut Cols, pfx: &str, x: &$m::ItemMisc) {
				leaf!(out, pfx, "0", $f, x.0);
				leaf!(out, pfx, "1", $f, x.1);
				leaf!(out, pfx, "2", $f, x.2);
				leaf!(out, pfx, "3", $f, x.3);
			}
			pub fn velocities(out: &mut Cols, pfx: &str, x: &$m::Velocities) {
				leaf!(out, pfx, "self_x_air", $f, x.self_x_air);
				leaf!(out, pfx, "self_y", $f, x.self_y);
				leaf!(out, pfx, "knockback_x", $f, x.knockback_x);
				leaf!(out, pfx, "knockback_y", $f, x.knockback_y);
				leaf!(out, pfx, "self_x_ground", $f, x.self_x_ground);
			}
			pub fn pre(out: &mut Cols, pfx: &str, x: &$m::Pre) {
				leaf!(out, pfx, "random_seed", $f, x.random_seed);
				leaf!(out, pfx, "state", $f, x.state);
				position(out, &format!("{}position.", pfx), &x.position);
				leaf!(out, pfx, "direction", $f, x.direction);
				position(out, &format!("{}joystick.", pfx), &x.joystick);
				position(out, &format!("{}cstick.", pfx), &x.cstick);
				leaf!(out, pfx, "triggers", $f, x.triggers);
				leaf!(out, pfx, "buttons", $f, x.buttons);
				leaf!(out, pfx, "buttons_physical", $f, x.buttons_physical);
				triggers_physical(out, &format!("{}triggers_physical.", pfx), &x.triggers_physical);
				leaf_opt!(out, pfx, "raw_analog_x", $f, x.raw_analog_x);
				leaf_opt!(out, pfx, "percent", $f, x.percent);
				leaf_opt!(out, pfx, "raw_analog_y", $f, x.raw_analog_y);
			}
			pub fn post(out: &mut Cols, pfx: &str, x: &$m::Post) {
				leaf!(out, pfx, "character", $f, x.character);
				leaf!(out, pfx, "state", $f, x.state);
				position(out, &format!("{}position.", pfx), &x.position);
				leaf!(out, pfx, "direction", $f, x.direction);
				leaf!(out, pfx, "percent", $f, x.percent);
				leaf!(out, pfx, "shield", $f, x.shield);
				leaf!(out, pfx, "last_attack_landed", $f, x.last_attack_landed);
				leaf!(out, pfx, "combo_count", $f, x.combo_count);
				leaf!(out, pfx, "last_hit_by", $f, x.last_hit_by);
				leaf!(out, pfx, "stocks", $f, x.stocks);
				leaf_opt!(out, pfx, "state_age", $f, x.state_age);
				if let Some(s) = &x.state_flags {
					state_flags(out, &format!("{}state_flags.", pfx), s);
				}
				leaf_opt!(out, pfx, "misc_as", $f, x.misc_as);
				leaf_opt!(out, pfx, "airborne", $f, x.airborne);
				leaf_opt!(out, pfx, "ground", $f, x.ground);
				leaf_opt!(out, pfx, "jumps", $f, x.jumps);
				leaf_opt!(out, pfx, "l_cancel", $f, x.l_cancel);
				leaf_opt!(out, pfx, "hurtbox_state", $f, x.hurtbox_state);
				if let Some(s) = &x.velocities {
					velocities(out, &format!("{}velocities.", pfx), s);
				}
				leaf_opt!(out, pfx, "hitlag", $f, x.hitlag);
				leaf_opt!(out, pfx, "animation_index", $f, x.animation_index);
				leaf_opt!(out, pfx, "last_hit_by_instance", $f, x.last_hit_by_instance);
				leaf_opt!(out, pfx, "instance_id", $f, x.instance_id);
			}
			pub fn start(out: &mut Cols, pfx: &str, x: &$m::Start) {
				leaf!(out, pfx, "random_seed", $f, x.random_seed);
				leaf_opt!(out, pfx, "scene_frame_counter", $f, x.scene_frame_counter);
			}
			pub fn end(out: &mut Cols, pfx: &str, x: &$m::End) {
				leaf_opt!(out, pfx, "latest_finalized_frame", $f, x.latest_finalized_frame);
			}
			pub fn item(out: &mut Cols, pfx: &str, x: &$m::Item) {
				leaf!(out, pfx, "type", $f, x.r#type);
				leaf!(out, pfx, "state", $f, x.state);
				leaf!(out, pfx, "direction", $f, x.direction);
				velocity(out, &format!("{}velocity.", pfx), &x.velocity);
				position(out, &format!("{}position.", pfx), &x.position);
				leaf!(out, pfx, "damage", $f, x.damage);
				leaf!(out, pfx, "timer", $f, x.timer);
				leaf!(out, pfx, "id", $f, x.id);
				if let Some(s) = &x.misc {
					item_misc(out, &format!("{}misc.", pfx), s);
				}
				leaf_opt!(out, pfx, "owner", $f, x.owner);
				leaf_opt!(out, pfx, "instance_id", $f, x.instance_id);
			}
		}
	};
}

walk_structs!(wim, im, col_imm);
walk_structs!(wmu, mu, col_mut);

/// Columns of the finished (immutable) representation.
pub fn from_immutable(f: &im::Frame) -> Cols {
	let mut out = Cols::default();
	out.leaves.insert("id".into(), col_imm(&f.id));
	for p in &f.ports {
		let base = format!("ports.{}", p.port);
		let c = format!("{}.leader", base);
		wim::pre(&mut out, &format!("{}.pre.", c), &p.leader.pre);
		wim::post(&mut out, &format!("{}.post.", c), &p.leader.post);
		out.present
			.insert(c, valid_imm(&p.leader.validity, p.leader.pre.random_seed.len()));
		if let Some(fo) = &p.follower {
			let c = format!("{}.follower", base);
			wim::pre(&mut out, &format!("{}.pre.", c), &fo.pre);
			wim::post(&mut out, &format!("{}.post.", c), &fo.post);
			out.present.insert(c, valid_imm(&fo.validity, fo.pre.random_seed.len()));
		}
	}
	if let Some(s) = &f.start {
		wim::start(&mut out, "start.", s);
	}
	if let Some(e) = &f.end {
		wim::end(&mut out, "end.", e);
		if let Some(v) = &e.validity {
			out.aux_len.insert("end".into(), v.len());
		}
	}
	if let Some(i) = &f.item {
		wim::item(&mut out, "item.", i);
	}
	if let Some(o) = &f.item_offset {
		out.item_off = Some(o.buffer().iter().map(|x| *x as i64).collect());
	}
	out
}

/// Columns of the in-progress (mutable) representation.
pub fn from_mutable(f: &mu::Frame) -> Cols {
	let mut out = Cols::default();
	out.leaves.insert("id".into(), col_mut(&f.id));
	for p in &f.ports {
		let base = format!("ports.{}", p.port);
		let c = format!("{}.leader", base);
		wmu::pre(&mut out, &format!("{}.pre.", c), &p.leader.pre);
		wmu::post(&mut out, &format!("{}.post.", c), &p.leader.post);
		out.present
			.insert(c, valid_mut(&p.leader.validity, p.leader.pre.random_seed.len()));
		if let Some(fo) = &p.follower {
			let c = format!("{}.follower", base);
			wmu::pre(&mut out, &format!("{}.pre.", c), &fo.pre);
			wmu::post(&mut out, &format!("{}.post.", c), &fo.post);
			out.present.insert(c, valid_mut(&fo.validity, fo.pre.random_seed.len()));
		}
	}
	if let Some(s) = &f.start {
		wmu::start(&mut out, "start.", s);
	}
	if let Some(e) = &f.end {
		wmu::end(&mut out, "end.", e);
		if let Some(v) = &e.validity {
			out.aux_len.insert("end".into(), v.len());
		}
	}
	if let Some(i) = &f.item {
		wmu::item(&mut out, "item.", i);
	}
	if let Some(o) = &f.item_offset {
		out.item_off = Some(o.as_slice().iter().map(|x| *x as i64).collect());
	}
	out
}

// ---------------------------------------------------------------------------------------------
// Arrow struct array, walked generically by field name
// ---------------------------------------------------------------------------------------------

/// Schema tree of an Arrow data type: (name, type, children).
#[derive(Debug, Clone, PartialEq, serde::Serialize)]
pub struct SchemaNode {
	pub name: String,
	pub ty: String,
	pub children: Vec<SchemaNode>,
}

pub fn schema_of(name: &str, dt: &DataType) -> SchemaNode {
	match dt {
		DataType::Struct(fields) => SchemaNode {
			name: name.to_string(),
			ty: "struct".into(),
			children: fields.iter().map(|f| schema_of(&f.name, &f.data_type)).collect(),
		},
		DataType::List(inner) => SchemaNode {
			name: name.to_string(),
			ty: "list".into(),
			children: vec![schema_of(&inner.name, &inner.data_type)],
		},
		DataType::Int8 => leaf_node(name, "i8"),
		DataType::UInt8 => leaf_node(name, "u8"),
		DataType::Int16 => leaf_node(name, "i16"),
		DataType::UInt16 => leaf_node(name, "u16"),
		DataType::Int32 => leaf_node(name, "i32"),
		DataType::UInt32 => leaf_node(name, "u32"),
		DataType::Float32 => leaf_node(name, "f32"),
		other => leaf_node(name, &format!("{:?}", other)),
	}
}
fn leaf_node(name: &str, ty: &str) -> SchemaNode {
	SchemaNode {
		name: name.to_string(),
		ty: ty.to_string(),
		children: vec![],
	}
}

fn prim_col<T: NativeType + Bits>(a: &dyn Array) -> Option<Col> {
	a.as_any().downcast_ref::<PrimitiveArray<T>>().map(col_imm)
}

fn walk_arrow(out: &mut Cols, pfx: &str, a: &dyn Array) -> Result<(), String> {
	match a.data_type() {
		DataType::Struct(fields) => {
			let s = a
				.as_any()
				.downcast_ref::<StructArray>()
				.ok_or_else(|| format!("{}: not a StructArray", pfx))?;
			// character structs carry the presence bits
			if pfx.ends_with(".leader.") || pfx.ends_with(".follower.") {
				let key = pfx.trim_end_matches('.').to_string();
				let v = match s.validity() {
					Some(b) => b.iter().collect(),
					None => vec![true; s.len()],
				};
				out.present.insert(key, v);
			}
			for (f, v) in fields.iter().zip(s.values().iter()) {
				walk_arrow(out, &format!("{}{}.", pfx, f.name), v.as_ref())?;
			}
			Ok(())
		}
		DataType::List(_) => {
			let l = a
				.as_any()
				.downcast_ref::<ListArray<i32>>()
				.ok_or_else(|| format!("{}: not a ListArray<i32>", pfx))?;
			out.item_off = Some(l.offsets().buffer().iter().map(|x| *x as i64).collect());
			walk_arrow(out, pfx, l.values().as_ref())
		}
		dt => {
			let key = pfx.trim_end_matches('.').to_string();
			let c = match dt {
				DataType::Int8 => prim_col::<i8>(a),
				DataType::UInt8 => prim_col::<u8>(a),
				DataType::Int16 => prim_col::<i16>(a),
				DataType::UInt16 => prim_col::<u16>(a),
				DataType::Int32 => prim_col::<i32>(a),
				DataType::UInt32 => prim_col::<u32>(a),
				DataType::Float32 => prim_col::<f32>(a),
				_ => None,
			}
			.ok_or_else(|| format!("{}: unsupported arrow type {:?}", key, dt))?;
			out.leaves.insert(key, c);
			Ok(())
		}
	}
}

/// Columns of an exported Arrow struct array (name-addressed).
pub fn from_struct_array(a: &StructArray) -> Result<Cols, String> {
	let mut out = Cols::default();
	walk_arrow(&mut out, "", a)?;
	Ok(out)
}

// ---------------------------------------------------------------------------------------------
// Row view: transposed frames, re-assembled into columns
// ---------------------------------------------------------------------------------------------

fn push<T: Bits>(out: &mut Cols, path: String, v: T) {
	out.leaves
		.entry(path)
		.or_insert_with(|| Col {
			ty: T::TY.to_string(),
			vals: vec![],
		})
		.vals
		.push(v.bits());
}
fn push_opt<T: Bits>(out: &mut Cols, path: String, v: Option<T>) {
	if let Some(v) = v {
		push(out, path, v);
	}
}

fn row_pre(out: &mut Cols, pfx: &str, x: &tr::Pre) {
	push(out, format!("{}random_seed", pfx), x.random_seed);
	push(out, format!("{}state", pfx), x.state);
	push(out, format!("{}position.x", pfx), x.position.x);
	push(out, format!("{}position.y", pfx), x.position.y);
	push(out, format!("{}direction", pfx), x.direction);
	push(out, format!("{}joystick.x", pfx), x.joystick.x);
	push(out, format!("{}joystick.y", pfx), x.joystick.y);
	push(out, format!("{}cstick.x", pfx), x.cstick.x);
	push(out, format!("{}cstick.y", pfx), x.cstick.y);
	push(out, format!("{}triggers", pfx), x.triggers);
	push(out, format!("{}buttons", pfx), x.buttons);
	push(out, format!("{}buttons_physical", pfx), x.buttons_physical);
	push(out, format!("{}triggers_physical.l", pfx), x.triggers_physical.l);
	push(out, format!("{}triggers_physical.r", pfx), x.triggers_physical.r);
	push_opt(out, format!("{}raw_analog_x", pfx), x.raw_analog_x);
	push_opt(out, format!("{}percent", pfx), x.percent);
	push_opt(out, format!("{}raw_analog_y", pfx), x.raw_analog_y);
}

fn row_post(out: &mut Cols, pfx: &str, x: &tr::Post) {
	push(out, format!("{}character", pfx), x.character);
	push(out, format!("{}state", pfx), x.state);
	push(out, format!("{}position.x", pfx), x.position.x);
	push(out, format!("{}position.y", pfx), x.position.y);
	push(out, format!("{}direction", pfx), x.direction);
	push(out, format!("{}percent", pfx), x.percent);
	push(out, format!("{}shield", pfx), x.shield);
	push(out, format!("{}last_attack_landed", pfx), x.last_attack_landed);
	push(out, format!("{}combo_count", pfx), x.combo_count);
	push(out, format!("{}last_hit_by", pfx), x.last_hit_by);
	push(out, format!("{}stocks", pfx), x.stocks);
	push_opt(out, format!("{}state_age", pfx), x.state_age);
	if let Some(s) = &x.state_flags {
		push(out, format!("{}state_flags.0", pfx), s.0);
		push(out, format!("{}state_flags.1", pfx), s.1);
		push(out, format!("{}state_flags.2", pfx), s.2);
		push(out, format!("{}state_flags.3", pfx), s.3);
		push(out, format!("{}state_flags.4", pfx), s.4);
	}
	push_opt(out, format!("{}misc_as", pfx), x.misc_as);
	push_opt(out, format!("{}airborne", pfx), x.airborne);
	push_opt(out, format!("{}ground", pfx), x.ground);
	push_opt(out, format!("{}jumps", pfx), x.jumps);
	push_opt(out, format!("{}l_cancel", pfx), x.l_cancel);
	push_opt(out, format!("{}hurtbox_state", pfx), x.hurtbox_state);
	if let Some(s) = &x.velocities {
		push(out, format!("{}velocities.self_x_air", pfx), s.self_x_air);
		push(out, format!("{}velocities.self_y", pfx), s.self_y);
		push(out, format!("{}velocities.knockback_x", pfx), s.knockback_x);
		push(out, format!("{}velocities.knockback_y", pfx), s.knockback_y);
		push(out, format!("{}velocities.self_x_ground", pfx), s.self_x_ground);
	}
	push_opt(out, format!("{}hitlag", pfx), x.hitlag);
	push_opt(out, format!("{}animation_index", pfx), x.animation_index);
	push_opt(out, format!("{}last_hit_by_instance", pfx), x.last_hit_by_instance);
	push_opt(out, format!("{}instance_id", pfx), x.instance_id);
}

fn row_item(out: &mut Cols, pfx: &str, x: &tr::Item) {
	push(out, format!("{}type", pfx), x.r#type);
	push(out, format!("{}state", pfx), x.state);
	push(out, format!("{}direction", pfx), x.direction);
	push(out, format!("{}velocity.x", pfx), x.velocity.x);
	push(out, format!("{}velocity.y", pfx), x.velocity.y);
	push(out, format!("{}position.x", pfx), x.position.x);
	push(out, format!("{}position.y", pfx), x.position.y);
	push(out, format!("{}damage", pfx), x.damage);
	push(out, format!("{}timer", pfx), x.timer);
	push(out, format!("{}id", pfx), x.id);
	if let Some(m) = &x.misc {
		push(out, format!("{}misc.0", pfx), m.0);
		push(out, format!("{}misc.1", pfx), m.1);
		push(out, format!("{}misc.2", pfx), m.2);
		push(out, format!("{}misc.3", pfx), m.3);
	}
	push_opt(out, format!("{}owner", pfx), x.owner);
	push_opt(out, format!("{}instance_id", pfx), x.instance_id);
}

/// Re-assembles single-row views (rows `0..rows.len()`) into columns.  The row view has no
/// presence bits; `present` stays empty.  Item offsets are rebuilt from the per-row item lists.
pub fn from_rows(rows: &[tr::Frame]) -> Cols {
	let mut out = Cols::default();
	let mut off: Vec<i64> = vec![0];
	let mut any_items = false;
	for fr in rows {
		push(&mut out, "id".into(), fr.id);
		for p in &fr.ports {
			let base = format!("ports.{}", p.port);
			row_pre(&mut out, &format!("{}.leader.pre.", base), &p.leader.pre);
			row_post(&mut out, &format!("{}.leader.post.", base), &p.leader.post);
			if let Some(fo) = &p.follower {
				row_pre(&mut out, &format!("{}.follower.pre.", base), &fo.pre);
				row_post(&mut out, &format!("{}.follower.post.", base), &fo.post);
			}
		}
		if let Some(s) = &fr.start {
			push(&mut out, "start.random_seed".into(), s.random_seed);
			push_opt(&mut out, "start.scene_frame_counter".into(), s.scene_frame_counter);
		}
		if let Some(e) = &fr.end {
			push_opt(&mut out, "end.latest_finalized_frame".into(), e.latest_finalized_frame);
		}
		if let Some(items) = &fr.items {
			any_items = true;
			for it in items {
				row_item(&mut out, "item.", it);
			}
			off.push(off.last().unwrap() + items.len() as i64);
		}
	}
	if any_items {
		out.item_off = Some(off);
	}
	out
}

/// Restricts columns to their first `n` rows (items: to those rows' items).
pub fn prefix(c: &Cols, n: usize) -> Cols {
	let mut out = Cols::default();
	let nitems = c.item_off.as_ref().map(|o| o.get(n).copied().unwrap_or(0) as usize);
	for (k, v) in &c.leaves {
		let lim = if k.starts_with("item.") { nitems.unwrap_or(0) } else { n };
		out.leaves.insert(
			k.clone(),
			Col {
				ty: v.ty.clone(),
				vals: v.vals.iter().take(lim).cloned().collect(),
			},
		);
	}
	for (k, v) in &c.present {
		out.present.insert(k.clone(), v.iter().take(n).cloned().collect());
	}
	out.item_off = c.item_off.as_ref().map(|o| o.iter().take(n + 1).cloned().collect());
	out
}
