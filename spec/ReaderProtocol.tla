--------------------------- MODULE ReaderProtocol ---------------------------
(***************************************************************************)
(* The one-shot .slp reader as a protocol over a byte stream:               *)
(*   header -> payload table -> Game Start -> [skip] -> event loop bounded  *)
(*   by the declared raw length -> duplicated Game End / junk -> metadata   *)
(*   or closing brace,                                                      *)
(* composed with                                                            *)
(*   - a SCHEDULER that fragments the stream into short reads (every read   *)
(*     call may return fewer bytes than asked for),                         *)
(*   - the HASHING wrapper (every delivered byte is fed to the digest; a    *)
(*     seek kills the digest),                                              *)
(*   - a CUT point: the file is truncated to its first `cut` bytes.         *)
(* Bytes are abstract: the file is 1..N, sizes are small constants.         *)
(* (C07 C10 C11 C12, C06 for progress.)                                     *)
(***************************************************************************)
EXTENDS Integers, Sequences, FiniteSets, TLC, Json

CONSTANTS NFrameEv,   \* number of frame-level events between Game Start and Game End
          DupEnd,     \* BOOLEAN: the file carries a duplicated Game End
          HasMeta,    \* BOOLEAN: the file carries a metadata element
          MaxChunk,   \* largest chunk the scheduler hands out
          Cuts,       \* set of cut points to explore (subset of 0..N); {N} = intact file only
          Variant,    \* {} intended; "M23": skipping always seeks; "M17": EOF accepted for "}"
          InProgress  \* BOOLEAN: the header declares raw length 0 (a replay still being recorded):
                      \* the event loop runs until it meets a Game End, nothing after it is skipped,
                      \* and the skip option cannot be used

(* ---- the abstract file: segments with sizes ---- *)
HdrSize == 2        \* signature + declared raw length
TableSize == 2      \* Payloads event (command byte + table)
StartSize == 3      \* Game Start (command byte + payload)
EvSize == 3         \* any other event (command byte + payload)
MetaKeySize == 2    \* "U" is read first (1 byte), then the rest of the key and the "{" (1)
MetaBodySize == 3    \* the metadata map's content including its own closing brace
RawLen == TableSize + StartSize + NFrameEv * EvSize + EvSize + (IF DupEnd THEN EvSize ELSE 0)
N == HdrSize + RawLen + (IF HasMeta THEN MetaKeySize + MetaBodySize ELSE 0) + 1

Seg(name, size) == [name |-> name, size |-> size]
Segments ==
    << Seg("header", HdrSize), Seg("table", TableSize), Seg("start", StartSize) >>
    \o [i \in 1..NFrameEv |-> Seg("frame_event", EvSize)]
    \o << Seg("game_end", EvSize) >>
    \o (IF DupEnd THEN << Seg("dup_game_end", EvSize) >> ELSE <<>>)
    \o (IF HasMeta THEN << Seg("meta_key", MetaKeySize), Seg("meta_body", MetaBodySize) >> ELSE <<>>)
    \o << Seg("close", 1) >>

RECURSIVE SegStart(_)
SegStart(i) == IF i = 1 THEN 0 ELSE SegStart(i - 1) + Segments[i - 1].size

(* ---- the reader's calls on the stream, as the code issues them ---- *)
\* kinds: "exact" read_exact(n) (EOF is an error); "copy" copy up to n bytes through the
\* (hashing) reader into a sink (EOF is NOT an error); "seek" relative seek by n
Call(kind, n, what) == [kind |-> kind, n |-> n, what |-> what]

\* bytes of the raw element consumed once Game Start has been parsed
AfterStart == TableSize + StartSize
\* the skip option jumps to the LAST Game End: raw_len - bytes_read - (1 + size of Game End)
SkipBytes == RawLen - AfterStart - EvSize

CallsFull ==
    << Call("exact", HdrSize, "header"), Call("exact", 1, "table_cmd"), Call("exact", TableSize - 1, "table"),
       Call("exact", 1, "start_cmd"), Call("exact", StartSize - 1, "start") >>
    \o [i \in 1..(2 * NFrameEv) |-> IF i % 2 = 1 THEN Call("exact", 1, "event_cmd") ELSE Call("exact", EvSize - 1, "event")]
    \o << Call("exact", 1, "end_cmd"), Call("exact", EvSize - 1, "end") >>
    \* with a declared length the rest of the raw element (a duplicated Game End) is swallowed here;
    \* an in-progress replay has no declared length, so nothing is swallowed
    \o (IF DupEnd /\ ~InProgress THEN << Call("exact", EvSize, "tail") >> ELSE <<>>)

\* the skip option needs the declared length: refused at once for an in-progress replay
CallsSkipRefused ==
    << Call("exact", HdrSize, "header"), Call("exact", 1, "table_cmd"), Call("exact", TableSize - 1, "table"),
       Call("exact", 1, "start_cmd"), Call("exact", StartSize - 1, "start"), Call("refuse", 0, "skip") >>

CallsSkip(hash) ==
    << Call("exact", HdrSize, "header"), Call("exact", 1, "table_cmd"), Call("exact", TableSize - 1, "table"),
       Call("exact", 1, "start_cmd"), Call("exact", StartSize - 1, "start"),
       IF hash /\ "M23" \notin Variant THEN Call("copy", SkipBytes, "skip") ELSE Call("seek", SkipBytes, "skip"),
       Call("exact", 1, "end_cmd"), Call("exact", EvSize - 1, "end") >>

CallsTail ==
    << Call("exact", 1, "meta_or_close") >>
    \o (IF HasMeta THEN << Call("exact", MetaKeySize - 1, "meta_key"), Call("exact", MetaBodySize, "meta_body"),
                            Call("exact", 1, "close") >> ELSE <<>>)

\* after the raw element the reader expects the metadata key or the closing brace; for an in-progress replay
\* with a duplicated Game End the next byte is that event's command byte instead: rejected
CallsBadTail == << Call("exact", 1, "meta_or_close"), Call("refuse", 0, "unexpected_byte") >>

Calls(skip, hash) ==
    IF skip /\ InProgress THEN CallsSkipRefused
    ELSE (IF skip THEN CallsSkip(hash) ELSE CallsFull) \o (IF InProgress /\ DupEnd THEN CallsBadTail ELSE CallsTail)

VARIABLES
    skip, hash,   \* the reader's options
    cut,          \* the stream ends after this many bytes
    ci,           \* index of the current call
    need,         \* bytes the current call still wants
    pos,          \* stream position
    hasher,       \* "off" (not requested) | "on" | "dead" (killed by a seek)
    hashed,       \* Seq of byte indices fed to the digest
    sched,        \* history: the chunk sizes the scheduler handed out (one per read call)
    outcome       \* "run" | "ok" | "err"

vars == <<skip, hash, cut, ci, need, pos, hasher, hashed, sched, outcome>>

Init ==
    /\ skip \in BOOLEAN /\ hash \in BOOLEAN
    /\ cut \in Cuts
    /\ ci = 1 /\ need = Calls(skip, hash)[1].n
    /\ pos = 0
    /\ hasher = IF hash THEN "on" ELSE "off"
    /\ hashed = <<>> /\ sched = <<>>
    /\ outcome = "run"

CurCall == Calls(skip, hash)[ci]
Avail == IF cut > pos THEN cut - pos ELSE 0

Advance ==
    IF ci = Len(Calls(skip, hash))
    THEN /\ outcome' = "ok" /\ ci' = ci /\ need' = 0
    ELSE /\ outcome' = "run" /\ ci' = ci + 1 /\ need' = Calls(skip, hash)[ci + 1].n

\* one `read` call on the underlying stream: the scheduler hands out 1..min(need, avail, MaxChunk)
\* bytes; the hashing wrapper feeds exactly those bytes to the digest
ReadChunk ==
    /\ outcome = "run" /\ CurCall.kind \in {"exact", "copy"} /\ need > 0 /\ Avail > 0
    /\ \E n \in 1..MaxChunk :
         /\ n <= need /\ n <= Avail
         /\ pos' = pos + n
         /\ hashed' = IF hasher = "on" THEN hashed \o [i \in 1..n |-> pos + i] ELSE hashed
         /\ sched' = Append(sched, n)
         /\ IF need = n THEN Advance ELSE (need' = need - n /\ ci' = ci /\ outcome' = "run")
    /\ UNCHANGED <<skip, hash, cut, hasher>>

\* end of stream inside a call
HitEof ==
    /\ outcome = "run" /\ need > 0 /\ Avail = 0 /\ CurCall.kind \in {"exact", "copy"}
    /\ IF CurCall.kind = "exact"
       THEN \* read_exact fails ... unless the variant accepts EOF in place of the closing brace
            IF "M17" \in Variant /\ CurCall.what = "meta_or_close"
            THEN outcome' = "ok" /\ UNCHANGED <<ci, need>>
            ELSE outcome' = "err" /\ UNCHANGED <<ci, need>>
       ELSE Advance   \* a copy simply stops early; the reader does not notice
    /\ UNCHANGED <<skip, hash, cut, pos, hasher, hashed, sched>>

\* a zero-length call completes at once
ZeroCall ==
    /\ outcome = "run" /\ need = 0 /\ CurCall.kind \in {"exact", "copy"}
    /\ Advance
    /\ UNCHANGED <<skip, hash, cut, pos, hasher, hashed, sched>>

\* a relative seek: always succeeds (also beyond the end of the stream) and kills the digest
Seek ==
    /\ outcome = "run" /\ CurCall.kind = "seek"
    /\ pos' = pos + CurCall.n
    /\ hasher' = IF hasher = "on" THEN "dead" ELSE hasher
    /\ Advance
    /\ UNCHANGED <<skip, hash, cut, hashed, sched>>

\* the reader gives up (not an I/O matter)
Refuse ==
    /\ outcome = "run" /\ CurCall.kind = "refuse"
    /\ outcome' = "err"
    /\ UNCHANGED <<skip, hash, cut, ci, need, pos, hasher, hashed, sched>>

Next == ReadChunk \/ HitEof \/ ZeroCall \/ Seek \/ Refuse
Spec == Init /\ [][Next]_vars /\ WF_vars(Next)

(* ---- properties ---- *)
\* C07: a proper prefix of a finished file is never accepted
CutSafety == outcome = "ok" => cut >= N
\* C11: the digest covers exactly the bytes consumed, each once, in order -- for every schedule,
\* with and without skipping; and it is reported iff it was requested
HashExact == outcome = "ok" =>
    /\ hash => (hasher = "on" /\ hashed = [i \in 1..N |-> i])
    /\ ~hash => hasher = "off"
\* C12 / C11: the outcome and the consumed length do not depend on the schedule
ScheduleIndependent == outcome = "ok" => pos = N
\* the skip option never seeks while a digest was requested
NoSeekWhileHashing == [][(pos' # pos /\ sched' = sched) => ~hash]_vars
\* C06/C07: the reader always terminates (every step consumes input or finishes a call)
Terminates == <>(outcome # "run")
Inv == CutSafety /\ HashExact /\ ScheduleIndependent

(* ---- exports ---- *)
CutClass ==
    IF cut >= N THEN [seg |-> "none", where |-> "intact", idx |-> 0]
    ELSE LET i == CHOOSE j \in 1..Len(Segments) : SegStart(j) <= cut /\ cut < SegStart(j) + Segments[j].size
         IN [seg |-> Segments[i].name, idx |-> i,
             where |-> IF cut = SegStart(i) THEN "start"
                       ELSE IF cut = SegStart(i) + Segments[i].size - 1 THEN "last_byte_missing" ELSE "inside"]

ExportJson == [ skip |-> skip, hash |-> hash, chunks |-> sched, cut |-> CutClass, outcome |-> outcome,
                nframe_ev |-> NFrameEv, dup |-> DupEnd, meta |-> HasMeta, in_progress |-> InProgress,
                digest |-> IF hasher = "on" THEN "all" ELSE "none" ]
Export == outcome # "run" => PrintT(<<"SCHED", ToJson(ExportJson)>>)

=============================================================================
