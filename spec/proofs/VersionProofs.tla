---------------------------- MODULE VersionProofs ----------------------------
(***************************************************************************)
(* TLAPS lemmas for the version order (C09, C20), on the FULL domain of     *)
(* bytes (TLC checks the same statements on grids):                         *)
(*   - the at-least test on (major, minor) is the integer order of the      *)
(*     encoding 256 major + minor, hence every version gate is monotone;    *)
(*   - the less-than test is its negation;                                  *)
(*   - the writers' ceiling (lexicographic order on the full triple) is the *)
(*     integer order of the encoding (256 major + minor) 256 + patch.       *)
(* The definitions are repeated from SlpVersion.tla (which also contains    *)
(* recursive string operators the proof system does not need).              *)
(***************************************************************************)
EXTENDS Integers, TLAPS

Byte == 0..255
Gte(a, b, M, m) == a > M \/ (a = M /\ b >= m)
Lt(a, b, M, m) == ~Gte(a, b, M, m)
Enc2(M, m) == M * 256 + m

USE DEF Byte

LEMMA GteIsEncoding ==
    ASSUME NEW a \in Byte, NEW b \in Byte, NEW M \in Byte, NEW m \in Byte
    PROVE  Gte(a, b, M, m) <=> Enc2(a, b) >= Enc2(M, m)
<1>1. CASE a > M
  <2>1. a >= M + 1 BY <1>1
  <2>2. a * 256 >= (M + 1) * 256 BY <2>1
  <2>3. (M + 1) * 256 = M * 256 + 256 OBVIOUS
  <2>4. a * 256 + b >= M * 256 + 256 BY <2>2, <2>3
  <2>5. M * 256 + 256 > M * 256 + m OBVIOUS
  <2> QED BY <1>1, <2>4, <2>5 DEF Gte, Enc2
<1>2. CASE a = M
  BY <1>2 DEF Gte, Enc2
<1>3. CASE a < M
  <2>1. M >= a + 1 BY <1>3
  <2>2. M * 256 >= (a + 1) * 256 BY <2>1
  <2>3. (a + 1) * 256 = a * 256 + 256 OBVIOUS
  <2>4. M * 256 + m >= a * 256 + 256 BY <2>2, <2>3
  <2>5. a * 256 + 256 > a * 256 + b OBVIOUS
  <2> QED BY <1>3, <2>4, <2>5 DEF Gte, Enc2
<1> QED BY <1>1, <1>2, <1>3

LEMMA LtIsNegation ==
    ASSUME NEW a \in Byte, NEW b \in Byte, NEW M \in Byte, NEW m \in Byte
    PROVE  Lt(a, b, M, m) <=> Enc2(a, b) < Enc2(M, m)
BY GteIsEncoding DEF Lt, Enc2

\* every gate is monotone in the version
LEMMA GatesMonotone ==
    ASSUME NEW a \in Byte, NEW b \in Byte, NEW c \in Byte, NEW d \in Byte, NEW M \in Byte, NEW m \in Byte,
           Enc2(a, b) <= Enc2(c, d), Gte(a, b, M, m)
    PROVE  Gte(c, d, M, m)
<1>1. Enc2(a, b) >= Enc2(M, m) BY GteIsEncoding
<1>2. Enc2(c, d) >= Enc2(M, m) BY <1>1 DEF Enc2
<1> QED BY <1>2, GteIsEncoding

\* the writers' ceiling: lexicographic order on triples
VLeq(a, b, c, x, y, z) == a < x \/ (a = x /\ b < y) \/ (a = x /\ b = y /\ c <= z)
Enc3(a, b, c) == (a * 256 + b) * 256 + c

LEMMA CeilingIsEncoding ==
    ASSUME NEW a \in Byte, NEW b \in Byte, NEW c \in Byte, NEW x \in Byte, NEW y \in Byte, NEW z \in Byte
    PROVE  VLeq(a, b, c, x, y, z) <=> Enc3(a, b, c) <= Enc3(x, y, z)
<1> DEFINE p == a * 256 + b
<1> DEFINE q == x * 256 + y
<1>0. p \in Nat /\ q \in Nat OBVIOUS
<1>1. (a < x \/ (a = x /\ b < y)) <=> p < q
  <2>1. ~Gte(a, b, x, y) <=> p < q BY GteIsEncoding DEF Enc2
  <2> QED BY <2>1 DEF Gte
<1>2. (a = x /\ b = y) <=> p = q
  <2>1. Gte(a, b, x, y) <=> p >= q BY GteIsEncoding DEF Enc2
  <2>2. Gte(x, y, a, b) <=> q >= p BY GteIsEncoding DEF Enc2
  <2> QED BY <2>1, <2>2 DEF Gte
<1>3. CASE p < q
  <2>1. q >= p + 1 BY <1>3, <1>0
  <2>2. q * 256 >= (p + 1) * 256 BY <2>1, <1>0
  <2>3. (p + 1) * 256 = p * 256 + 256 BY <1>0
  <2>4. q * 256 + z >= p * 256 + 256 BY <2>2, <2>3, <1>0
  <2>5. p * 256 + 256 > p * 256 + c BY <1>0
  <2> QED BY <1>1, <1>3, <2>4, <2>5 DEF VLeq, Enc3
<1>4. CASE p = q
  BY <1>1, <1>2, <1>4 DEF VLeq, Enc3
<1>5. CASE p > q
  <2>1. p >= q + 1 BY <1>5, <1>0
  <2>2. p * 256 >= (q + 1) * 256 BY <2>1, <1>0
  <2>3. (q + 1) * 256 = q * 256 + 256 BY <1>0
  <2>4. p * 256 + c >= q * 256 + 256 BY <2>2, <2>3, <1>0
  <2>5. q * 256 + 256 > q * 256 + z BY <1>0
  <2>6. ~(a < x \/ (a = x /\ b < y)) /\ ~(a = x /\ b = y) BY <1>1, <1>2, <1>5, <1>0
  <2> QED BY <2>4, <2>5, <2>6 DEF VLeq, Enc3
<1> QED BY <1>3, <1>4, <1>5, <1>0
=============================================================================
