---------------------------- MODULE SlpTolerated ----------------------------
(***************************************************************************)
(* Environment for C17 (and C08): replays that are well-formed up to the    *)
(* irregularities the reader tolerates --                                   *)
(*   - any order of a frame's Pre / Post / Item events that keeps each      *)
(*     character's Pre before its Post (Frame Start first, Frame End last;  *)
(*     before 2.2 the first event of a frame is a Pre),                     *)
(*   - unknown (but declared) events anywhere after Game Start,             *)
(*   - junk bytes after Game End inside the raw element,                    *)
(*   - unknown (declared) events after Game End too, before and after its   *)
(*     duplicate,                                                           *)
(*   - Game End absent, metadata absent.                                    *)
(* Pass 1 feeds such a history to the parser and takes the writer's         *)
(* re-emission E1.  Pass 2 feeds E1 to a fresh parser.  Invariants: the     *)
(* declared length of E1 is its emitted length; the second parse yields     *)
(* the same game; re-emitting it yields E1 again (a fixed point).           *)
(***************************************************************************)
EXTENDS SlpWriter, TLC, Json, SequencesExt

CONSTANTS MaxFrames, MaxItems, MaxUnk, IdSteps, EndChoices, MetaChoices, JunkChoices,
          TailUnkChoices   \* how many unknown events may follow Game End (and its duplicate)

VARIABLES hist, todo, emitted, curId, inFrame, nframes, nunk, phase, fileEnd, meta, junk, quirk,
          tailUnk, \* <<unknown events between Game End and its duplicate (or the end), unknown events after the duplicate>>
          saved,   \* snapshot after pass 1: the game, the quirk and the emission E1
          queue    \* pass 2: events of E1 still to be fed

tvars == <<hist, todo, emitted, curId, inFrame, nframes, nunk, phase, fileEnd, meta, junk, quirk, tailUnk, saved, queue>>
vars == <<pvars, tvars>>

E(k, id, p, f, x) == [k |-> k, id |-> id, p |-> p, f |-> f, x |-> x, tok |-> Len(hist) + 1]
UnknownCode == 64

TInit ==
    /\ PInit
    /\ hist = <<>> /\ todo = {} /\ emitted = {} /\ curId = FirstIndex - 1 /\ inFrame = FALSE
    /\ nframes = 0 /\ nunk = 0 /\ phase = "frames" /\ quirk = FALSE
    /\ fileEnd \in EndChoices /\ meta \in MetaChoices
    \* junk is "extra bytes after Game End": there is none without a Game End
    /\ junk \in (IF fileEnd = "none" THEN {0} ELSE JunkChoices)
    /\ tailUnk \in (IF fileEnd = "none" THEN {<<0, 0>>}
                    ELSE IF fileEnd = "single" THEN {<<a, 0>> : a \in TailUnkChoices}
                    ELSE TailUnkChoices \X TailUnkChoices)
    /\ saved = <<>> /\ queue = <<>>

Feed(e) == hist' = Append(hist, e) /\ Step(e)

\* frame-body event descriptors: <<kind, port, follower, n>>
Body(present, nitems) ==
    {<<"pre", c[1], c[2], 0>> : c \in present} \cup {<<"post", c[1], c[2], 0>> : c \in present}
    \cup {<<"item", 0, 0, n>> : n \in 1..nitems}

CanEmit(d) ==
    /\ d \in todo
    /\ d[1] = "post" => <<"pre", d[2], d[3], 0>> \in emitted
    \* before 2.2 a frame is opened by a Pre event
    /\ (~V22 /\ emitted = {}) => d[1] = "pre"

NewFrame ==
    /\ phase = "frames" /\ ~inFrame /\ nframes < MaxFrames
    /\ \E present \in SUBSET Chars, nitems \in 0..(IF V30 THEN MaxItems ELSE 0) :
         \E id \in (IF ids = <<>> THEN {FirstIndex} ELSE IF V22 THEN {Last(ids) + s : s \in IdSteps} ELSE {Last(ids) + 1}) :
           /\ (~V22 => present # {})
           /\ todo' = Body(present, nitems) /\ emitted' = {} /\ curId' = id /\ inFrame' = TRUE
           /\ IF V22 THEN Feed(E("fs", id, 0, 0, 0)) ELSE UNCHANGED <<pvars, hist>>
    /\ nframes' = nframes + 1
    /\ UNCHANGED <<nunk, phase, fileEnd, meta, junk, quirk, tailUnk, saved, queue>>

EmitBody ==
    /\ phase = "frames" /\ inFrame
    /\ \E d \in todo :
         /\ CanEmit(d)
         /\ Feed(E(d[1], curId, d[2], d[3], 0))
         /\ todo' = todo \ {d} /\ emitted' = emitted \cup {d}
    /\ UNCHANGED <<curId, inFrame, nframes, nunk, phase, fileEnd, meta, junk, quirk, tailUnk, saved, queue>>

EndFrame ==
    /\ phase = "frames" /\ inFrame /\ todo = {}
    /\ IF V30 THEN Feed(E("fe", curId, 0, 0, 0)) ELSE UNCHANGED <<pvars, hist>>
    /\ inFrame' = FALSE
    /\ UNCHANGED <<todo, emitted, curId, nframes, nunk, phase, fileEnd, meta, junk, quirk, tailUnk, saved, queue>>

\* an unknown event, anywhere
Unknown ==
    /\ phase = "frames" /\ nunk < MaxUnk
    /\ Feed(E("unk", 0, 0, 0, UnknownCode))
    /\ nunk' = nunk + 1
    /\ UNCHANGED <<todo, emitted, curId, inFrame, nframes, phase, fileEnd, meta, junk, quirk, tailUnk, saved, queue>>

GameEnd ==
    /\ phase = "frames" /\ ~inFrame
    /\ IF fileEnd = "none" THEN UNCHANGED <<pvars, hist>> ELSE Feed(E("ge", 0, 0, 0, 0))
    /\ phase' = "tail"
    /\ UNCHANGED <<todo, emitted, curId, inFrame, nframes, nunk, fileEnd, meta, junk, quirk, tailUnk, saved, queue>>

GameSnapshot == <<ids, pre, post, fstart, fend, items, off, gend, gecko, gactual>>

\* the reader's tail: it walks the declared events that follow the first Game End; a Game End among them is the
\* duplicate, unknown events are skipped as anywhere else; bytes that are no declared event are junk, and with junk
\* nothing is recognised
ReadTail1 ==
    /\ phase = "tail"
    /\ Finalize
    /\ quirk' = (fileEnd = "double" /\ junk = 0)
    /\ phase' = "emit"
    /\ UNCHANGED <<hist, todo, emitted, curId, inFrame, nframes, nunk, fileEnd, meta, junk, tailUnk, saved, queue>>

\* take the writer's emission, start pass 2 on a fresh parser
StartPass2 ==
    /\ phase = "emit"
    /\ saved' = [game |-> GameSnapshot, quirk |-> quirk, emit |-> Emit(quirk), counts |-> DeclaredCounts(quirk),
                 table |-> PayloadTable(TRUE)]
    /\ queue' = Emit(quirk)
    /\ ids' = <<>> /\ pre' = [c \in Chars |-> <<>>] /\ post' = [c \in Chars |-> <<>>]
    /\ fstart' = <<>> /\ fend' = <<>> /\ items' = <<>> /\ off' = <<0>>
    /\ gend' = 0 /\ gecko' = <<>> /\ gactual' = 0 /\ acc' = <<>> /\ accActual' = 0
    /\ nev' = 0 /\ status' = "run" /\ reason' = ""
    /\ phase' = "pass2"
    /\ UNCHANGED <<hist, todo, emitted, curId, inFrame, nframes, nunk, fileEnd, meta, junk, quirk, tailUnk>>

Pass2Feed ==
    /\ phase = "pass2" /\ queue # <<>> /\ status = "run"
    /\ Step(Head(queue))
    /\ queue' = Tail(queue)
    /\ UNCHANGED <<hist, todo, emitted, curId, inFrame, nframes, nunk, phase, fileEnd, meta, junk, quirk, tailUnk, saved>>

\* pass 2's tail: whatever is left after the first Game End is the duplicate (or nothing)
ReadTail2 ==
    /\ phase = "pass2" /\ (queue = <<>> \/ status = "ended")
    /\ Finalize
    /\ quirk' = (Len(queue) = 1 /\ queue[1].k = "ge")
    /\ phase' = "done"
    /\ UNCHANGED <<hist, todo, emitted, curId, inFrame, nframes, nunk, fileEnd, meta, junk, tailUnk, saved, queue>>

Next == NewFrame \/ EmitBody \/ EndFrame \/ Unknown \/ GameEnd \/ ReadTail1 \/ StartPass2 \/ Pass2Feed \/ ReadTail2
Spec == TInit /\ [][Next]_vars

(* ---- invariants ---- *)
\* tolerated input is accepted
NeverRejects == status # "err"
\* C17: the declared length of what the writer emits is its emitted length
DeclaredIsEmitted == phase = "emit" => RawLenConsistent(quirk)
\* C17: the written file re-reads to the same game and re-serialises to itself
FixedPoint == phase = "done" =>
    /\ GameSnapshot = saved.game
    /\ quirk = saved.quirk
    /\ Emit(quirk) = saved.emit
\* C08: unknown events leave no trace in the emission
NoUnknownEmitted == phase = "emit" => \A i \in 1..Len(Emit(quirk)) : Emit(quirk)[i].k # "unk"
\* the emission contains exactly the known events of the history (as a set of tokens), the
\* duplicate of Game End apart
EmitTokens == phase = "emit" =>
    {Emit(quirk)[i].tok : i \in 1..Len(Emit(quirk))} = {hist[i].tok : i \in {j \in 1..Len(hist) : hist[j].k # "unk"}}

TInv == TypeOK /\ NeverRejects /\ DeclaredIsEmitted /\ FixedPoint /\ NoUnknownEmitted /\ EmitTokens

(* ---- export (when pass 1 is complete) ---- *)
ColJson(col) == [n \in 1..Len(CharSeq) |-> [p |-> CharSeq[n][1], f |-> CharSeq[n][2], toks |-> col[CharSeq[n]]]]
BehJson ==
    [ reg |-> Regime, occ |-> [p \in 1..4 |-> Occ[p - 1]],
      hist |-> hist, file_end |-> fileEnd, meta |-> meta, junk |-> junk, tail_unk |-> tailUnk,
      fin |-> [ ids |-> ids, pre |-> ColJson(pre), post |-> ColJson(post), fstart |-> fstart, fend |-> fend,
                items |-> items, off |-> off, gend |-> gend, gecko |-> gecko, gactual |-> gactual,
                quirk |-> quirk, nev |-> nev ],
      emit |-> Emit(quirk),
      table |-> PayloadTable(TRUE),
      counts |-> DeclaredCounts(quirk) ]
Export == phase = "emit" => PrintT(<<"BEH", ToJson(BehJson)>>)

=============================================================================
