----------------------------- MODULE Trace_Parser -----------------------------
(***************************************************************************)
(* Trace validation (implementation -> specification) of the event parser.  *)
(* The harness drives the REAL incremental API over a replay file and logs  *)
(* one record per call at its return: the abstract event (kind, frame id,   *)
(* port, follower flag, extra) decoded from the bytes by an independent     *)
(* walker, the call's result, and cheap scalars of the real post-state      *)
(* (row count, per-character column lengths and valid-entry counts, item    *)
(* count, offset count, Game End / Gecko presence).  Every record must be   *)
(* explained by the corresponding action of SlpParser with the same         *)
(* post-state scalars.  The framing regime and the port occupancy are read  *)
(* from the trace's first record.                                           *)
(***************************************************************************)
EXTENDS SlpParser, Json, IOUtils, TLC

Rec == ndJsonDeserialize(IOEnv.TRACE)

TraceRegime == Rec[1].reg
TraceOcc == [p \in 0..3 |-> Rec[1].occ[p + 1]]

VARIABLE l   \* next record to explain
tvars == <<pvars, l>>

TInit == PInit /\ l = 2

Ev == [k |-> Rec[l].k, id |-> Rec[l].id, p |-> Rec[l].p, f |-> Rec[l].f, x |-> Rec[l].x, tok |-> l]

Valid(s) == Cardinality({i \in 1..Len(s) : s[i] # 0})

\* the logged scalars of the real post-state equal the specification's
Scalars ==
    /\ Len(ids') = Rec[l].rows
    /\ \A n \in 1..Len(CharSeq) :
         /\ Len(pre'[CharSeq[n]]) = Rec[l].lens[n][1]
         /\ Len(post'[CharSeq[n]]) = Rec[l].lens[n][2]
         /\ Valid(pre'[CharSeq[n]]) = Rec[l].lens[n][3]
    /\ Len(CharSeq) = Len(Rec[l].lens)
    /\ Len(fstart') = Rec[l].nstart /\ Len(fend') = Rec[l].nend
    /\ Len(items') = Rec[l].nitems /\ Len(off') = Rec[l].noff
    /\ (gend' # 0) = Rec[l].gend
    /\ Len(gecko') = Rec[l].ngecko /\ gactual' = Rec[l].gactual

TStep ==
    /\ l <= Len(Rec) /\ Rec[l].k # "final"
    /\ Step(Ev)
    /\ (Rec[l].res = "ok") <=> (status' \in {"run", "ended"})
    /\ (Rec[l].res = "ok") => Scalars
    /\ l' = l + 1

\* the one-shot reader's result for the same bytes: the parser state after Finalize
TFinal ==
    /\ l <= Len(Rec) /\ Rec[l].k = "final"
    /\ Finalize
    /\ Scalars
    /\ l' = l + 1

TNext == TStep \/ TFinal
TSpec == TInit /\ [][TNext]_tvars

\* one state per explained record plus the initial state; the first record is the header
TraceAccepted ==
    IF TLCGet("stats").diameter = Len(Rec) THEN TRUE
    ELSE Print(<<"TRACE REJECTED at record", TLCGet("stats").diameter + 1, "of", Len(Rec)>>, FALSE)
\* fingerprint by position only: the trace spec is deterministic given the position
TView == l
=============================================================================
