------------------------------- MODULE Rollbacks -------------------------------
(***************************************************************************)
(* Rollback de-duplication (C15): a one-pass automaton with a seen-set,     *)
(* forwards (keep the first occurrence of each frame id) or backwards (keep *)
(* the last), against the declarative definition of the mask.               *)
(***************************************************************************)
EXTENDS Integers, Sequences, FiniteSets, TLC, Json

CONSTANTS Ids,      \* the frame ids that may occur
          MaxLen    \* bound on the number of frame rows

VARIABLES ids,      \* the game's frame-id column
          phase,    \* "build" | "scan" | "done"
          mode,     \* "first" (mark all but the first occurrence) | "last"
          i,        \* scan position (number of rows visited)
          seen,     \* ids visited so far
          mask      \* result so far: [1..Len(ids) -> BOOLEAN]

vars == <<ids, phase, mode, i, seen, mask>>

Init == ids = <<>> /\ phase = "build" /\ mode \in {"first", "last"} /\ i = 0 /\ seen = {} /\ mask = <<>>

Build == /\ phase = "build" /\ Len(ids) < MaxLen
         /\ \E x \in Ids : ids' = Append(ids, x)
         /\ UNCHANGED <<phase, mode, i, seen, mask>>
StartScan == /\ phase = "build"
             /\ phase' = "scan" /\ mask' = [k \in 1..Len(ids) |-> FALSE]
             /\ UNCHANGED <<ids, mode, i, seen>>
\* the row visited at step i+1: forwards or backwards
Pos(k) == IF mode = "first" THEN k ELSE Len(ids) + 1 - k
Visit == /\ phase = "scan" /\ i < Len(ids)
         /\ LET p == Pos(i + 1) IN
              /\ mask' = [mask EXCEPT ![p] = ids[p] \in seen]
              /\ seen' = seen \cup {ids[p]}
         /\ i' = i + 1
         /\ UNCHANGED <<ids, phase, mode>>
Finish == /\ phase = "scan" /\ i = Len(ids) /\ phase' = "done" /\ UNCHANGED <<ids, mode, i, seen, mask>>
Next == Build \/ StartScan \/ Visit \/ Finish
Spec == Init /\ [][Next]_vars

(* declarative definition, written without the automaton *)
Marked(k) == IF mode = "first" THEN \E j \in 1..(k - 1) : ids[j] = ids[k]
             ELSE \E j \in (k + 1)..Len(ids) : ids[j] = ids[k]

MaskCorrect == phase = "done" => \A k \in 1..Len(ids) : mask[k] = Marked(k)
OnePerId == phase = "done" =>
    \A x \in {ids[k] : k \in 1..Len(ids)} : Cardinality({k \in 1..Len(ids) : ids[k] = x /\ ~mask[k]}) = 1
NoRepeatsAllFalse == phase = "done" =>
    ((\A a, b \in 1..Len(ids) : a # b => ids[a] # ids[b]) => \A k \in 1..Len(ids) : ~mask[k])
\* partial result: rows visited so far are final
Stable == [][\A k \in 1..Len(mask) : (phase = "scan" /\ phase' = "scan" /\ k \in {Pos(j) : j \in 1..i}) => mask'[k] = mask[k]]_vars
Inv == MaskCorrect /\ OnePerId /\ NoRepeatsAllFalse
Export == phase = "done" => PrintT(<<"IDS", ToJson([ids |-> ids, mode |-> mode, mask |-> mask])>>)
=============================================================================
