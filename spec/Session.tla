-------------------------------- MODULE Session --------------------------------
(***************************************************************************)
(* Histories of API calls on one thread.                                    *)
(*                                                                          *)
(* The library has no state of its own: every one-shot call (read, write,   *)
(* either format, with any options, succeeding or failing part-way) is a    *)
(* function of its argument, and the only state that lives across calls is  *)
(* the ParseState value the caller of the incremental API holds.  This      *)
(* module states exactly that, so that the round-trip properties (C01, C02, *)
(* C10, C12), which are quantified over inputs, are also decided over       *)
(* HISTORIES: whatever was called before, and however it ended, a call      *)
(* returns what it returns on a fresh thread.                               *)
(*                                                                          *)
(* Results are tokens; the harness concretises a game name as a generated   *)
(* replay and compares every result with the result of the same call made   *)
(* first thing on a new thread.                                             *)
(***************************************************************************)
EXTENDS Naturals, Sequences, FiniteSets, TLC, Json

CONSTANTS Games,     \* names of the replays in play
          MaxCalls,  \* bound on the length of a history
          Variant    \* "none", or a seeded design defect (for the self-test)

VARIABLES hist,      \* the calls made so far with their results
          open,      \* the incremental parse in progress: [g, fed], fed \in 0..2 (thirds of the events fed); g = "none": none
          residue    \* what a failed call leaves behind in the library: always "none" in the design

vars == <<hist, open, residue>>

OneShot == {"read_slp", "read_slp_skip", "read_slp_hash", "read_slp_cut", "read_slp_bad",
            "write_slp", "write_slp_fail",
            "write_slpp", "write_slpp_fail_early", "write_slpp_fail_late",
            "read_slpp", "read_slpp_skip", "read_slpp_cut"}
IncKinds == {"inc_begin", "inc_feed", "inc_finish", "inc_drop"}
Kinds == OneShot \cup IncKinds

(* what a call returns when nothing was called before it *)
Pure(k, g) ==
    CASE k = "read_slp"       -> <<"game", g, "nohash">>
      [] k = "read_slp_hash"  -> <<"game", g, "hash">>
      [] k = "read_slp_skip"  -> <<"game_noframes", g>>
      [] k = "read_slpp_skip" -> <<"game_noframes", g>>        \* C10: the two skip routes agree
      [] k = "read_slpp"      -> <<"game", g, "hash">>         \* the archive stores the hash it was written with
      [] k = "write_slp"      -> <<"slp", g>>                  \* C01: the bytes of g
      [] k = "write_slpp"     -> <<"slpp", g>>
      [] k \in {"read_slp_cut", "read_slp_bad", "read_slpp_cut", "write_slp_fail",
                "write_slpp_fail_early", "write_slpp_fail_late"} -> <<"err">>
      [] OTHER -> <<"unit">>

NoOpen == [g |-> "none", fed |-> 0]
Init == hist = <<>> /\ open = NoOpen /\ residue = "none"

Record(k, g, r) == hist' = Append(hist, [kind |-> k, g |-> g, res |-> r])

Call(k, g) ==
    /\ k \in OneShot
    /\ LET r == IF Variant = "RESIDUE" /\ k = "write_slpp" /\ residue # "none"
                THEN <<"slpp", residue>>       \* the seeded defect: frames of the game whose write failed
                ELSE Pure(k, g)
       IN Record(k, g, r)
    /\ residue' = IF Variant = "RESIDUE" /\ k = "write_slpp_fail_late" THEN g
                  ELSE IF k = "write_slpp" THEN "none" ELSE residue
    /\ UNCHANGED open

IncBegin(g) == /\ open = NoOpen /\ open' = [g |-> g, fed |-> 0]
               /\ Record("inc_begin", g, <<"unit">>) /\ UNCHANGED residue
IncFeed == /\ open # NoOpen /\ open.fed < 2 /\ open' = [open EXCEPT !.fed = @ + 1]
           /\ Record("inc_feed", open.g, <<"rows", open.g, open.fed + 1>>) /\ UNCHANGED residue
\* feeds whatever is left, then the metadata: the game the one-shot reader returns (C12)
IncFinish == /\ open # NoOpen /\ open' = NoOpen
             /\ Record("inc_finish", open.g, <<"game", open.g, "nohash">>) /\ UNCHANGED residue
IncDrop == /\ open # NoOpen /\ open' = NoOpen
           /\ Record("inc_drop", open.g, <<"unit">>) /\ UNCHANGED residue

Next == /\ Len(hist) < MaxCalls
        /\ \/ \E k \in OneShot, g \in Games : Call(k, g)
           \/ \E g \in Games : IncBegin(g)
           \/ IncFeed \/ IncFinish \/ IncDrop
Spec == Init /\ [][Next]_vars

-----------------------------------------------------------------------------
TypeOK == /\ residue \in Games \cup {"none"}
          /\ open = NoOpen \/ (open.g \in Games /\ open.fed \in 0..2)
          /\ Len(hist) <= MaxCalls

(* every one-shot result is the result of that call on a fresh thread *)
HistoryIndependent ==
    \A i \in 1..Len(hist) : hist[i].kind \in OneShot => hist[i].res = Pure(hist[i].kind, hist[i].g)

(* the incremental parse is not disturbed by the calls made while it is open: what it reports
   depends on its own game only *)
IncUndisturbed ==
    \A i \in 1..Len(hist) :
        /\ hist[i].kind = "inc_finish" => hist[i].res = <<"game", hist[i].g, "nohash">>
        /\ hist[i].kind = "inc_feed" => hist[i].res[2] = hist[i].g

(* the two skip routes give the same token (C10), the two full routes the same game up to the hash *)
SkipRoutesAgree == \A g \in Games : Pure("read_slp_skip", g) = Pure("read_slpp_skip", g)

NoResidue == residue = "none"

Inv == TypeOK /\ HistoryIndependent /\ IncUndisturbed /\ SkipRoutesAgree /\ NoResidue

Full == Len(hist) = MaxCalls
Export == Full => PrintT(<<"SESSION", ToJson([calls |-> [i \in 1..Len(hist) |-> <<hist[i].kind, hist[i].g>>]])>>)
=============================================================================
