-------------------------------- MODULE Session --------------------------------
(***************************************************************************)
(* Histories of API calls on one thread.                                    *)
(*                                                                          *)
(* The library has no state of its own: every one-shot call (read, write,   *)
(* either format, with any options, succeeding or failing part-way) is a    *)
(* function of its argument, and the only state that lives across calls is  *)
(* the ParseState value the caller of the incremental API holds.  This      *)
(* module states exactly that, so that the round-trip properties (C01, C02, *)
(* C10, C12), which are quantified over inputs, are also decided over       *)
(* HISTORIES: whatever was called before, on this thread or on another one, *)
(* and however it ended, a call returns what it returns on a fresh thread.  *)
(*                                                                          *)
(* Results are tokens; the harness concretises a game name as a generated   *)
(* replay and compares every result with the result of the same call made   *)
(* first thing on a new thread.                                             *)
(***************************************************************************)
EXTENDS Naturals, Sequences, FiniteSets, TLC, Json

CONSTANTS Games,     \* names of the replays in play
          Threads,   \* the threads making calls (numbers)
          KindsUsed, \* the one-shot calls in play (a subset of OneShot)
          UseInc,    \* whether the incremental API is in play
          MaxCalls,  \* bound on the length of a history (all threads together)
          Variant    \* "none", or a seeded design defect (for the self-test)

VARIABLES hist,      \* the calls made so far with their results
          open,      \* per thread, the incremental parse it holds: [g, fed], fed \in 0..2 (thirds of the events fed); g = "none": none
          residue    \* what a failed call leaves behind in the library ([t, g]): always nothing in the design

vars == <<hist, open, residue>>

OneShot == {"read_slp", "read_slp_skip", "read_slp_hash", "read_slp_cut", "read_slp_bad",
            "write_slp", "write_slp_fail",
            "write_slpp", "write_slpp_fail_early", "write_slpp_fail_late",
            "read_slpp", "read_slpp_skip", "read_slpp_cut",
            "arrow_roundtrip"}      \* frames -> Arrow struct array -> frames -> .slp bytes (C14)
IncKinds == {"inc_begin", "inc_feed", "inc_finish", "inc_drop"}
Kinds == OneShot \cup IncKinds

(* what a call returns when nothing was called before it *)
Pure(k, g) ==
    CASE k = "read_slp"       -> <<"game", g, "nohash">>
      [] k = "read_slp_hash"  -> <<"game", g, "hash">>
      [] k = "read_slp_skip"  -> <<"game_noframes", g>>
      [] k = "read_slpp_skip" -> <<"game_noframes", g>>        \* C10: the two skip routes agree
      [] k = "read_slpp"      -> <<"game", g, "hash">>         \* the archive stores the hash it was written with
      [] k = "write_slp"      -> <<"slp", g>>                  \* C01: the bytes of g
      [] k = "write_slpp"     -> <<"slpp", g>>
      [] k = "arrow_roundtrip" -> <<"slp", g>>                 \* C14: import(export(frames)) serialises to the file
      [] k \in {"read_slp_cut", "read_slp_bad", "read_slpp_cut", "write_slp_fail",
                "write_slpp_fail_early", "write_slpp_fail_late"} -> <<"err">>
      [] OTHER -> <<"unit">>

NoOpen == [g |-> "none", fed |-> 0]
NoResidueV == [t |-> 0, g |-> "none"]
Init == hist = <<>> /\ open = [t \in Threads |-> NoOpen] /\ residue = NoResidueV

Record(t, k, g, r) == hist' = Append(hist, [t |-> t, kind |-> k, g |-> g, res |-> r])

(* the seeded defects: what a failed .slpp write leaves behind is picked up by the next .slpp write of the same
   thread (RESIDUE: a thread-local scratch buffer) or of any thread (SHARED: a process-wide one) *)
Leaks(t) == /\ residue # NoResidueV
            /\ \/ Variant = "RESIDUE" /\ residue.t = t
               \/ Variant = "SHARED"

Call(t, k, g) ==
    /\ k \in KindsUsed
    /\ LET r == IF k = "write_slpp" /\ Leaks(t)
                THEN <<"slpp", residue.g>>       \* frames of the game whose write failed
                ELSE Pure(k, g)
       IN Record(t, k, g, r)
    /\ residue' = IF Variant \in {"RESIDUE", "SHARED"} /\ k = "write_slpp_fail_late" THEN [t |-> t, g |-> g]
                  ELSE IF k = "write_slpp" /\ Leaks(t) THEN NoResidueV ELSE residue
    /\ UNCHANGED open

IncBegin(t, g) == /\ open[t] = NoOpen /\ open' = [open EXCEPT ![t] = [g |-> g, fed |-> 0]]
                  /\ Record(t, "inc_begin", g, <<"unit">>) /\ UNCHANGED residue
IncFeed(t) == /\ open[t] # NoOpen /\ open[t].fed < 2 /\ open' = [open EXCEPT ![t].fed = @ + 1]
              /\ Record(t, "inc_feed", open[t].g, <<"rows", open[t].g, open[t].fed + 1>>) /\ UNCHANGED residue
\* feeds whatever is left, then the metadata: the game the one-shot reader returns (C12)
IncFinish(t) == /\ open[t] # NoOpen /\ open' = [open EXCEPT ![t] = NoOpen]
                /\ Record(t, "inc_finish", open[t].g, <<"game", open[t].g, "nohash">>) /\ UNCHANGED residue
IncDrop(t) == /\ open[t] # NoOpen /\ open' = [open EXCEPT ![t] = NoOpen]
              /\ Record(t, "inc_drop", open[t].g, <<"unit">>) /\ UNCHANGED residue

\* (the threads are interchangeable: the first call is made by the first thread)
MayCall(t) == hist = <<>> => \A y \in Threads : t <= y
Next == /\ Len(hist) < MaxCalls
        /\ \E t \in Threads :
             /\ MayCall(t)
             /\ \/ \E k \in KindsUsed, g \in Games : Call(t, k, g)
                \/ UseInc /\ (\E g \in Games : IncBegin(t, g))
                \/ UseInc /\ (IncFeed(t) \/ IncFinish(t) \/ IncDrop(t))
Spec == Init /\ [][Next]_vars

-----------------------------------------------------------------------------
TypeOK == /\ residue.g \in Games \cup {"none"}
          /\ \A t \in Threads : open[t] = NoOpen \/ (open[t].g \in Games /\ open[t].fed \in 0..2)
          /\ Len(hist) <= MaxCalls
          /\ KindsUsed \subseteq OneShot

(* every one-shot result is the result of that call on a fresh thread *)
HistoryIndependent ==
    \A i \in 1..Len(hist) : hist[i].kind \in OneShot => hist[i].res = Pure(hist[i].kind, hist[i].g)

(* the incremental parse is not disturbed by the calls made while it is open: what it reports
   depends on its own game only *)
IncUndisturbed ==
    \A i \in 1..Len(hist) :
        /\ hist[i].kind = "inc_finish" => hist[i].res = <<"game", hist[i].g, "nohash">>
        /\ hist[i].kind = "inc_feed" => hist[i].res[2] = hist[i].g

(* the two skip routes give the same token (C10), the two full routes the same game up to the hash *)
SkipRoutesAgree == \A g \in Games : Pure("read_slp_skip", g) = Pure("read_slpp_skip", g)

NoResidue == residue = NoResidueV

Inv == TypeOK /\ HistoryIndependent /\ IncUndisturbed /\ SkipRoutesAgree /\ NoResidue

Full == Len(hist) = MaxCalls
Export == Full => PrintT(<<"SESSION", ToJson([calls |-> [i \in 1..Len(hist) |-> <<hist[i].kind, hist[i].g, hist[i].t>>]])>>)
=============================================================================
