----------------------------- MODULE SlpWriter -----------------------------
(***************************************************************************)
(* The .slp writer as a function of the parsed game (the parser variables   *)
(* plus the file-level results quirk / metadata): the payload-size table,   *)
(* the declared raw length (computed from COUNTS, as the code does, not by  *)
(* measuring), and the canonical re-emission of the event sequence.         *)
(* (C01, C17; Emit is also what the .slpp round trip must reproduce, C02.)  *)
(***************************************************************************)
EXTENDS SlpParser

Ev(k, id, p, f, x, tok) == [k |-> k, id |-> id, p |-> p, f |-> f, x |-> x, tok |-> tok]

\* a character is written in row i exactly when its validity bit is set, i.e. its pre cell
\* holds an event
PresentIn(c, i) == pre[c][i] # 0

RECURSIVE MapPresent(_, _, _)
\* events of kind k ("pre" | "post") for the characters of cs present in row i, in order
MapPresent(cs, i, k) ==
    IF cs = <<>> THEN <<>>
    ELSE LET c == Head(cs) IN
         (IF PresentIn(c, i)
          THEN << Ev(k, ids[i], c[1], c[2], 0, IF k = "pre" THEN pre[c][i] ELSE post[c][i]) >>
          ELSE <<>>) \o MapPresent(Tail(cs), i, k)

ItemEvents(i) == [j \in 1..(off[i + 1] - off[i]) |-> Ev("item", ids[i], 0, 0, 0, items[off[i] + j])]

EmitRow(i) ==
    (IF V22 THEN << Ev("fs", ids[i], 0, 0, 0, fstart[i]) >> ELSE <<>>)
    \o MapPresent(CharSeq, i, "pre")
    \o (IF V30 THEN ItemEvents(i) ELSE <<>>)
    \o MapPresent(CharSeq, i, "post")
    \o (IF V30 THEN << Ev("fe", ids[i], 0, 0, 0, fend[i]) >> ELSE <<>>)

RECURSIVE EmitRows(_)
EmitRows(i) == IF i > NRows THEN <<>> ELSE EmitRow(i) \o EmitRows(i + 1)

\* The writer re-creates the splitter framing from the summed actual size: block j carries
\* min(512, actual - 512 (j-1)) bytes and is final when it reaches the actual size.
CeilDiv512(n) == (n + 511) \div 512
GeckoBlocksWritten == CeilDiv512(gactual)
Min(a, b) == IF a < b THEN a ELSE b
EmitGecko ==
    IF gecko = <<>> THEN <<>>
    ELSE [j \in 1..Min(GeckoBlocksWritten, Len(gecko)) |->
            Ev("split", 0, WrappedGecko, IF 512 * j >= gactual THEN 1 ELSE 0,
               Min(512, gactual - 512 * (j - 1)), gecko[j])]

\* quirk: TRUE when the reader saw a duplicated Game End after the first one
EmitEnd(quirk) ==
    IF gend = 0 THEN <<>>
    ELSE IF quirk THEN << Ev("ge", 0, 0, 0, 0, gend), Ev("ge", 0, 0, 0, 0, gend) >>
    ELSE << Ev("ge", 0, 0, 0, 0, gend) >>

\* the raw element the writer produces after Payloads and Game Start
Emit(quirk) == EmitGecko \o EmitRows(1) \o EmitEnd(quirk)

(***************************************************************************)
(* Payload table: which event codes are declared, in which order.  (Sizes   *)
(* are per concrete version: SlpLayout.)  HasGeckoVersion: version >= 3.3.  *)
(***************************************************************************)
PayloadTable(hasGeckoVersion) ==
    << "gs", "pre", "post", "ge" >>
    \o (IF V22 THEN << "fs" >> ELSE <<>>)
    \o (IF V30 THEN << "item", "fe" >> ELSE <<>>)
    \o (IF V30 /\ hasGeckoVersion /\ gecko # <<>> THEN << "gecko", "split" >> ELSE <<>>)

(***************************************************************************)
(* Declared raw length, as counts of events per kind (the code multiplies   *)
(* each count by 1 + the table size of that kind).                          *)
(***************************************************************************)
RECURSIVE CountPresent(_, _)
CountPresent(cs, i) ==
    IF i > NRows THEN 0
    ELSE Cardinality({c \in cs : PresentIn(c, i)}) + CountPresent(cs, i + 1)
FrameData == CountPresent(Chars, 1)

Kinds == {"pre", "post", "fs", "fe", "item", "split", "ge"}

DeclaredCounts(quirk) ==
    [k \in Kinds |->
        CASE k \in {"pre", "post"} -> FrameData
          [] k = "fs" -> IF V22 THEN NRows ELSE 0
          [] k = "fe" -> IF V30 THEN NRows ELSE 0
          [] k = "item" -> IF V30 THEN Len(items) ELSE 0
          [] k = "split" -> Len(gecko)           \* blob length / 512
          [] k = "ge" -> IF gend = 0 THEN (IF "F5" \in Variant THEN 1 ELSE 0)
                         ELSE IF quirk THEN 2 ELSE 1]

CountKind(s, k) == Cardinality({i \in 1..Len(s) : s[i].k = k})
EmittedCounts(quirk) == [k \in Kinds |-> CountKind(Emit(quirk), k)]

\* C17 (first clause) at the level of the design: the declared length is the emitted length
RawLenConsistent(quirk) == DeclaredCounts(quirk) = EmittedCounts(quirk)

=============================================================================
