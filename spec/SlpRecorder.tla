---------------------------- MODULE SlpRecorder ----------------------------
(***************************************************************************)
(* Environment: the Slippi recorder.  Generates every WELL-FORMED raw event  *)
(* history (this module is the definition of "well-formed" used by C01,     *)
(* C02, C04, C10-C14) and feeds it, event by event, to the parser of        *)
(* SlpParser; the one-shot reader's protocol around the event loop          *)
(* (dangling-frame close, duplicated Game End, metadata) is the tail of     *)
(* this module.  The history is kept in a variable so that invariants can   *)
(* relate the parser's state to what was recorded, and so that TLC can hand *)
(* each complete behaviour to the conformance harness.                      *)
(***************************************************************************)
EXTENDS SlpWriter, TLC, Json, SequencesExt

CONSTANTS MaxFrames,   \* bound on frame occurrences
          MaxItems,    \* bound on items per frame
          IdSteps,     \* set of id increments between consecutive frames (regimes B, C)
          MaxGecko,    \* bound on Gecko splitter blocks (regime C only)
          EndChoices,  \* subset of {"none", "single", "double"}
          MetaChoices  \* subset of {"none", "some"}

VARIABLES hist,    \* the raw event history recorded so far (after Game Start)
          plan,    \* events of the current frame still to be emitted
          nframes, \* frames started
          phase,   \* "gecko" | "frames" | "tail" | "done"
          quirk,   \* double_game_end as the reader reports it
          fileEnd, \* what the file has after the last frame: "none" | "single" | "double"
          meta,    \* "none" | "some"
          steps    \* observation log: <<rows, closed rows>> after each event fed (a function of hist)

rvars == <<hist, plan, nframes, phase, quirk, fileEnd, meta, steps>>
vars == <<pvars, rvars>>

E(k, id, p, f, x) == [k |-> k, id |-> id, p |-> p, f |-> f, x |-> x, tok |-> 0]

RECURSIVE CharEvents(_, _, _, _)
CharEvents(cs, present, k, id) ==
    IF cs = <<>> THEN <<>>
    ELSE (IF Head(cs) \in present THEN << E(k, id, Head(cs)[1], Head(cs)[2], 0) >> ELSE <<>>)
         \o CharEvents(Tail(cs), present, k, id)

FramePlan(id, present, nitems) ==
    (IF V22 THEN << E("fs", id, 0, 0, 0) >> ELSE <<>>)
    \o CharEvents(CharSeq, present, "pre", id)
    \o (IF V30 THEN [j \in 1..nitems |-> E("item", id, 0, 0, 0)] ELSE <<>>)
    \o CharEvents(CharSeq, present, "post", id)
    \o (IF V30 THEN << E("fe", id, 0, 0, 0) >> ELSE <<>>)

RInit ==
    /\ PInit
    /\ hist = <<>> /\ plan = <<>> /\ nframes = 0
    /\ phase = "gecko" /\ quirk = FALSE /\ steps = <<>>
    /\ fileEnd \in EndChoices /\ meta \in MetaChoices

\* feed one event (token = its position in the history) to the parser
Feed(e) ==
    LET ev == [e EXCEPT !.tok = Len(hist) + 1] IN
    /\ hist' = Append(hist, ev)
    /\ Step(ev)
    /\ steps' = Append(steps, <<Len(ids'), ClosedRows'>>)

(* Gecko codes: n splitter blocks, all but the last carrying 512 bytes *)
RecGecko ==
    /\ phase = "gecko" /\ V30 /\ MaxGecko > 0
    /\ \E n \in 1..MaxGecko, lastActual \in {512, 100, 1} :
         /\ plan' = [j \in 1..n |-> E("split", 0, WrappedGecko, IF j = n THEN 1 ELSE 0,
                                      IF j = n THEN lastActual ELSE 512)]
         /\ phase' = "geckoblocks"
    /\ UNCHANGED <<pvars, hist, nframes, quirk, fileEnd, meta, steps>>

RecSkipGecko ==
    /\ phase = "gecko"
    /\ phase' = "frames"
    /\ UNCHANGED <<pvars, hist, plan, nframes, quirk, fileEnd, meta, steps>>

RecEmit ==
    /\ phase \in {"geckoblocks", "frames"} /\ plan # <<>>
    /\ Feed(Head(plan))
    /\ plan' = Tail(plan)
    /\ phase' = IF phase = "geckoblocks" /\ Len(plan) = 1 THEN "frames" ELSE phase
    /\ UNCHANGED <<nframes, quirk, fileEnd, meta>>

RecNewFrame ==
    /\ phase = "frames" /\ plan = <<>> /\ nframes < MaxFrames
    /\ \E present \in SUBSET Chars, nitems \in 0..(IF V30 THEN MaxItems ELSE 0) :
         \E id \in (IF ids = <<>> THEN {FirstIndex}
                    ELSE IF V22 THEN {Last(ids) + s : s \in IdSteps} ELSE {Last(ids) + 1}) :
           \* before 2.2 a frame exists only through its characters' events
           /\ (~V22 => present # {})
           /\ plan' = FramePlan(id, present, nitems)
    /\ nframes' = nframes + 1
    /\ UNCHANGED <<pvars, hist, phase, quirk, fileEnd, meta, steps>>

\* the game ends: Game End once, or absent (the recorder was killed)
RecGameEnd ==
    /\ phase = "frames" /\ plan = <<>>
    /\ IF fileEnd = "none"
       THEN UNCHANGED <<pvars, hist, steps>>
       ELSE Feed(E("ge", 0, 0, 0, 0))
    /\ phase' = "tail"
    /\ UNCHANGED <<plan, nframes, quirk, fileEnd, meta>>

\* the one-shot reader after its event loop: close a dangling frame (no Frame End before
\* 3.0), swallow a duplicated Game End (recording it as a quirk), read metadata
ReadTail ==
    /\ phase = "tail"
    /\ Finalize
    /\ quirk' = (fileEnd = "double")
    /\ phase' = "done"
    /\ UNCHANGED <<hist, plan, nframes, fileEnd, meta, steps>>

Next == RecGecko \/ RecSkipGecko \/ RecEmit \/ RecNewFrame \/ RecGameEnd \/ ReadTail

Spec == RInit /\ [][Next]_vars

(***************************************************************************)
(* What the recorded file contains: the history, plus the duplicate of the  *)
(* Game End when the file doubles it (the duplicate is never parsed as an   *)
(* event; the reader's tail handling recognises and skips it).              *)
(***************************************************************************)
FileEvents == IF fileEnd = "double" /\ gend # 0 THEN Append(hist, hist[gend]) ELSE hist

(***************************************************************************)
(* Declarative meaning of a well-formed history: its frame occurrences.     *)
(* Written without reference to the parser's transitions.                   *)
(***************************************************************************)
FrameKinds == {"fs", "pre", "post", "item", "fe"}
\* positions of the frame events, ascending
FrameIdxSeq == SelectSeq([i \in 1..Len(hist) |-> i], LAMBDA i : hist[i].k \in FrameKinds)
\* positions (into FrameIdxSeq) at which a new frame occurrence starts: a Frame Start event, or
\* (before 2.2, where frames are implicit) the first frame event and every change of frame id
IsRowStartAt(fi, n) ==
    IF V22 THEN hist[fi[n]].k = "fs"
    ELSE n = 1 \/ hist[fi[n - 1]].id # hist[fi[n]].id
RowStartsOf(fi) == SelectSeq([n \in 1..Len(fi) |-> n], LAMBDA n : IsRowStartAt(fi, n))
\* the history positions of the events of the j-th occurrence
RowIdxOf(fi, rs, j) ==
    LET lo == rs[j]
        hi == IF j = Len(rs) THEN Len(fi) ELSE rs[j + 1] - 1
    IN {fi[n] : n \in lo..hi}
TokOf(S) == IF S = {} THEN 0 ELSE CHOOSE i \in S : TRUE
SortedSeq(S) == SetToSortSeq(S, LAMBDA x, y : x < y)
DeclRowOf(R) ==
    [ id |-> hist[CHOOSE i \in R : \A m \in R : i <= m].id,
      pre |-> [c \in Chars |-> TokOf({i \in R : hist[i].k = "pre" /\ hist[i].p = c[1] /\ hist[i].f = c[2]})],
      post |-> [c \in Chars |-> TokOf({i \in R : hist[i].k = "post" /\ hist[i].p = c[1] /\ hist[i].f = c[2]})],
      fstart |-> TokOf({i \in R : hist[i].k = "fs"}),
      fend |-> TokOf({i \in R : hist[i].k = "fe"}),
      items |-> SortedSeq({i \in R : hist[i].k = "item"}) ]

(***************************************************************************)
(* Invariants (checked by TLC in every reachable state)                     *)
(***************************************************************************)
\* C04: closed rows mirror the history's frame occurrences, at every step
RowsMirrorHistory ==
    LET fi == FrameIdxSeq
        rs == RowStartsOf(fi)
    IN /\ NRows = Len(rs)
       /\ \A j \in 1..ClosedRows : RowView(j) = DeclRowOf(RowIdxOf(fi, rs, j))

\* under the recorder the parser never rejects
NeverRejects == status # "err"

\* C01 at the level of the design: re-emission reproduces the file's events, the declared
\* length is the emitted length
RoundTrip == phase = "done" => /\ Emit(quirk) = FileEvents
                               /\ RawLenConsistent(quirk)

\* every reachable state maps into the inductive invariant of the length abstraction
\* (spec/apalache/SlpParserLens.tla, discharged by Apalache for unbounded histories)
LensInv ==
    LET n == NRows
        isOpen == status # "done" /\ ClosedRows < n
    IN /\ V22 => Len(fstart) = n
       /\ ~isOpen => (\A c \in Chars : Len(pre[c]) = n /\ Len(post[c]) = n) /\ (V30 => Len(fend) = n)
       /\ isOpen => /\ n >= 1
                    /\ V30 => Len(fend) = n - 1
                    /\ \A c \in Chars : /\ Len(pre[c]) \in {n - 1, n} /\ Len(post[c]) \in {n - 1, n}
                                        /\ Len(post[c]) <= Len(pre[c])

RInv == TypeOK /\ ColumnsAligned /\ RowsMirrorHistory /\ NeverRejects /\ RoundTrip /\ LensInv

(***************************************************************************)
(* Action properties (C12, C13): rows never disappear, closed rows never    *)
(* change, the event counter advances by one per event.                     *)
(***************************************************************************)
RowsMonotone == [][Len(ids') >= Len(ids)]_vars
ClosedRowsStable ==
    [][\A j \in 1..ClosedRows : j <= ClosedRows' /\ RowView(j)' = RowView(j)]_vars

(***************************************************************************)
(* The reader's debug option (beyond the listed properties): every event is *)
(* dumped to <dir>/<code>/<n>, n counting the earlier events dumped under   *)
(* the same code.  A non-final splitter block is dumped under the splitter  *)
(* code with its own payload; the final block under the WRAPPED code with   *)
(* the accumulated data of all blocks.                                      *)
(***************************************************************************)
DumpCode(e) == IF e.k = "split" THEN (IF e.f = 1 THEN "gecko" ELSE "split") ELSE e.k
DumpIndex(i) == Cardinality({j \in 1..(i - 1) : DumpCode(hist[j]) = DumpCode(hist[i])})
\* the blocks whose data the dump of event i contains (itself, or the whole splitter run ending at i)
RECURSIVE RunStart(_)
RunStart(i) == IF i > 1 /\ hist[i - 1].k = "split" /\ hist[i - 1].f = 0 THEN RunStart(i - 1) ELSE i
DumpToks(i) == IF hist[i].k = "split" /\ hist[i].f = 1 THEN [j \in 1..(i - RunStart(i) + 1) |-> hist[RunStart(i) + j - 1].tok]
               ELSE << hist[i].tok >>
DebugDump == [i \in 1..nev |-> [code |-> DumpCode(hist[i]), n |-> DumpIndex(i), toks |-> DumpToks(i)]]
\* indices are dense per code: the n-th dump of a code has index n - 1
DumpDense == \A i \in 1..nev : \A m \in 0..(DumpIndex(i) - 1) : \E j \in 1..(i - 1) : DumpCode(hist[j]) = DumpCode(hist[i]) /\ DumpIndex(j) = m

(***************************************************************************)
(* Export of complete behaviours for the conformance harness.               *)
(***************************************************************************)
ColJson(col) == [n \in 1..Len(CharSeq) |-> [p |-> CharSeq[n][1], f |-> CharSeq[n][2], toks |-> col[CharSeq[n]]]]
BehJson ==
    [ reg |-> Regime, occ |-> [p \in 1..4 |-> Occ[p - 1]],
      hist |-> hist, file_end |-> fileEnd, meta |-> meta,
      fin |-> [ ids |-> ids, pre |-> ColJson(pre), post |-> ColJson(post), fstart |-> fstart, fend |-> fend,
                items |-> items, off |-> off, gend |-> gend, gecko |-> gecko, gactual |-> gactual,
                quirk |-> quirk, nev |-> nev ],
      steps |-> steps,
      dump |-> DebugDump,
      emit |-> Emit(quirk),
      table |-> PayloadTable(TRUE),
      counts |-> DeclaredCounts(quirk) ]
Export == phase = "done" => PrintT(<<"BEH", ToJson(BehJson)>>)

=============================================================================
