--------------------------------- MODULE Slpp ---------------------------------
(***************************************************************************)
(* The .slpp container (C18, C07, C02): a tar archive written as a fixed    *)
(* sequence of entries that depends on the game's shape, and read by a loop *)
(* that dispatches on entry names, skips unknown entries, gates on the      *)
(* format version found in peppi.json, stops at frames.arrow, and reads     *)
(* that entry as an Arrow stream (magic, schema message, one record batch,  *)
(* end-of-stream marker; the file footer that follows is never read).       *)
(* The environment inserts unknown entries before frames.arrow, chooses the *)
(* format version, and cuts the archive.                                    *)
(***************************************************************************)
EXTENDS Integers, Sequences, FiniteSets, TLC, Json, SlpVersion

CONSTANTS MaxExtras,     \* bound on the number of unknown entries inserted
          VersionGrid,   \* set of peppi format version triples to try
          WithCuts,      \* BOOLEAN: also explore truncated archives
          Variant        \* {} | {"F7"}: an Arrow stream that ends between messages makes the reader wait and retry

(* ---- the game, as far as the container cares ---- *)
Shapes == [end : BOOLEAN, gecko : BOOLEAN, meta : BOOLEAN, frames : BOOLEAN]

\* what the writer emits, in order.  metadata.json is always written (null without metadata);
\* frames.arrow is always written (an empty batch without frames) and is always last.
WriterEntries(g) ==
    << "peppi.json", "metadata.json", "start.json", "start.raw" >>
    \o (IF g.end THEN << "end.json", "end.raw" >> ELSE <<>>)
    \o (IF g.gecko THEN << "gecko_codes.raw" >> ELSE <<>>)
    \o << "frames.arrow" >>

Known == {"peppi.json", "metadata.json", "start.raw", "end.raw", "gecko_codes.raw", "frames.arrow"}
\* start.json / end.json are for humans: the reader does not know them

\* parts of the frames.arrow entry as a stream reader sees it
ArrowParts == << "magic", "schema", "batch", "eos", "footer" >>

VARIABLES
    game,      \* the shape written
    version,   \* format version stored in peppi.json
    arch,      \* the archive: Seq of entry names (with unknown entries inserted)
    cut,       \* <<entry index, part>>: the archive ends inside that entry; <<0, "">> = intact.
               \* part: "header" | "data" | "padding" for ordinary entries; for frames.arrow data an element
               \* of ArrowParts, or "gap_<part>": cleanly between two messages, before <part>
    i,         \* reader: index of the next entry
    have,      \* reader: set of things parsed so far
    sub,       \* reader inside frames.arrow: next Arrow part expected, "" outside
    waits,     \* how often the reader has waited for more Arrow data
    outcome    \* "reading" | "ok" | "err"
vars == <<game, version, arch, cut, i, have, sub, waits, outcome>>

\* all ways to insert up to n unknown entries ("x") before the last entry
RECURSIVE Insertions(_, _)
Insertions(s, n) ==
    IF n = 0 THEN {s}
    ELSE Insertions(s, n - 1) \cup
         UNION { { SubSeq(t, 1, p) \o << "x" >> \o SubSeq(t, p + 1, Len(t)) : p \in 0..(Len(t) - 1) } : t \in Insertions(s, n - 1) }

CutPoints(a) ==
    IF ~WithCuts THEN { <<0, "">> }
    ELSE { <<0, "">> }
         \cup { <<k, p>> : k \in 1..(Len(a) - 1), p \in {"header", "data", "padding"} }
         \cup { <<Len(a), "header">> }
         \cup { <<Len(a), p>> : p \in {"magic", "schema", "gap_batch", "batch", "gap_eos", "eos", "footer", "padding", "trailer"} }

Init ==
    /\ game \in Shapes
    /\ version \in VersionGrid
    /\ arch \in Insertions(WriterEntries(game), MaxExtras)
    /\ cut \in CutPoints(arch)
    /\ i = 1 /\ have = {} /\ sub = "" /\ waits = 0 /\ outcome = "reading"

Intact == cut[1] = 0
\* is entry k completely present?
Whole(k) == Intact \/ k < cut[1]
\* an entry whose header is cut makes the tar layer fail (or end the iteration when nothing of it is left)
Fail == outcome' = "err" /\ UNCHANGED <<game, version, arch, cut, i, have, sub, waits>>

\* after the loop: what must have been seen
Assemble == IF {"peppi", "start", "frames"} \subseteq have THEN "ok" ELSE "err"

\* is entry k there at all (its header complete)?
Available(k) == k <= Len(arch) /\ (Intact \/ k < cut[1] \/ (k = cut[1] /\ cut[2] # "header"))

EndOfArchive ==
    /\ outcome = "reading" /\ sub = ""
    /\ ~Available(i)          \* no further entry: end of the archive, or it ends at / inside this entry's header
    /\ outcome' = Assemble
    /\ UNCHANGED <<game, version, arch, cut, i, have, sub, waits>>

ReadEntry ==
    /\ outcome = "reading" /\ sub = "" /\ Available(i)
    /\ LET name == arch[i]
           truncated == ~Intact /\ i = cut[1] /\ cut[2] = "data"   \* data cut short (padding cut: data is whole)
       IN
       IF name = "frames.arrow" THEN
            IF "start" \notin have THEN Fail
            ELSE /\ sub' = "magic" /\ UNCHANGED <<game, version, arch, cut, i, have, waits, outcome>>
       ELSE IF name \notin Known THEN   \* unknown entries (and the .json copies) are skipped, cut or not
            /\ i' = i + 1 /\ UNCHANGED <<game, version, arch, cut, have, sub, waits, outcome>>
       ELSE IF truncated THEN Fail        \* JSON / raw block cut short: parse error (or a shorter block: see harness)
       ELSE IF name = "peppi.json" THEN
            IF PeppiReadRefused(version) THEN Fail
            ELSE /\ have' = have \cup {"peppi"} /\ i' = i + 1 /\ UNCHANGED <<game, version, arch, cut, sub, waits, outcome>>
       ELSE /\ have' = have \cup {CASE name = "metadata.json" -> "metadata" [] name = "start.raw" -> "start"
                                    [] name = "end.raw" -> "end" [] name = "gecko_codes.raw" -> "gecko"}
            /\ i' = i + 1 /\ UNCHANGED <<game, version, arch, cut, sub, waits, outcome>>

\* position of a part in the Arrow stream
PartIdx(p) == CHOOSE k \in 1..Len(ArrowParts) : ArrowParts[k] = p
\* where the stream ends, relative to the part the reader wants next:
\*   "inside": in the middle of that part; "clean": exactly before it; "later": not before the end of it
ArrowEnd(want) ==
    IF Intact \/ cut[1] # Len(arch) \/ cut[2] \in {"padding", "trailer"} THEN "later"
    ELSE LET c == cut[2] IN
         IF c \in {"gap_batch", "gap_eos"} THEN
              (LET before == IF c = "gap_batch" THEN "batch" ELSE "eos" IN
               IF PartIdx(before) = PartIdx(want) THEN "clean"
               ELSE IF PartIdx(before) < PartIdx(want) THEN "clean" ELSE "later")
         ELSE IF PartIdx(c) = PartIdx(want) THEN "inside"
         ELSE IF PartIdx(c) < PartIdx(want) THEN "clean" ELSE "later"

ReadArrow ==
    /\ outcome = "reading" /\ sub # ""
    /\ LET e == ArrowEnd(sub) IN
       CASE sub = "magic" ->
              IF e = "later" THEN sub' = "schema" /\ UNCHANGED <<game, version, arch, cut, i, have, waits, outcome>> ELSE Fail
         [] sub = "schema" ->
              IF e = "later" THEN sub' = "batch" /\ UNCHANGED <<game, version, arch, cut, i, have, waits, outcome>> ELSE Fail
         [] sub \in {"batch", "eos"} ->
              IF e = "later" THEN
                   IF sub = "batch" THEN sub' = "eos" /\ UNCHANGED <<game, version, arch, cut, i, have, waits, outcome>>
                   ELSE \* end-of-stream marker read: the batch is complete, the loop ends here
                        /\ have' = have \cup {"frames"} /\ sub' = "" /\ i' = Len(arch) + 1
                        /\ UNCHANGED <<game, version, arch, cut, waits, outcome>>
              ELSE IF e = "inside" THEN Fail
              ELSE \* the stream ends cleanly between two messages: the Arrow reader says "waiting"
                   IF "F7" \in Variant
                   THEN waits' = (IF waits < 3 THEN waits + 1 ELSE waits) /\ UNCHANGED <<game, version, arch, cut, i, have, sub, outcome>>
                   ELSE Fail

Next == EndOfArchive \/ ReadEntry \/ ReadArrow
Spec == Init /\ [][Next]_vars /\ WF_vars(Next)

(* ---- properties ---- *)
\* C18: what the writer emits
FirstIsPeppi == WriterEntries(game)[1] = "peppi.json"
FramesLast == WriterEntries(game)[Len(WriterEntries(game))] = "frames.arrow"
OrderFixed == LET w == WriterEntries(game) IN
    /\ SubSeq(w, 1, 4) = << "peppi.json", "metadata.json", "start.json", "start.raw" >>
    /\ game.end <=> (\E k \in 1..(Len(w) - 1) : w[k] = "end.json" /\ w[k + 1] = "end.raw")
    /\ game.gecko <=> (\E k \in 1..Len(w) : w[k] = "gecko_codes.raw")
\* C18 / C02: an intact archive reads back, whatever unknown entries it carries, unless the version gate refuses it
IntactReadsBack == (outcome # "reading" /\ Intact) =>
    /\ (outcome = "ok") <=> ~PeppiReadRefused(version)
    /\ outcome = "ok" => have = {"peppi", "metadata", "start", "frames"}
                                  \cup (IF game.end THEN {"end"} ELSE {}) \cup (IF game.gecko THEN {"gecko"} ELSE {})
\* C07: a cut archive is rejected unless the cut lies after the end-of-stream marker of frames.arrow
CutRejected == (outcome = "ok" /\ ~Intact) =>
    /\ cut[1] = Len(arch) /\ cut[2] \in {"footer", "padding", "trailer"}
    /\ have = {"peppi", "metadata", "start", "frames"} \cup (IF game.end THEN {"end"} ELSE {}) \cup (IF game.gecko THEN {"gecko"} ELSE {})
Inv == FirstIsPeppi /\ FramesLast /\ OrderFixed /\ IntactReadsBack /\ CutRejected
\* C07: reading always terminates
Terminates == <>(outcome # "reading")

Export == outcome # "reading" =>
    PrintT(<<"ARCH", ToJson([game |-> game, version |-> version, arch |-> arch, cut_entry |-> cut[1], cut_part |-> cut[2],
                             outcome |-> outcome, writer |-> WriterEntries(game)])>>)
=============================================================================
