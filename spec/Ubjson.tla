-------------------------------- MODULE Ubjson --------------------------------
(***************************************************************************)
(* The metadata block (C16): a UBJSON map whose values are strings          *)
(* (U-length-prefixed UTF-8), 32-bit integers or further maps.  The         *)
(* environment builds every well-formed token stream within the bounds;     *)
(* the reader is an explicit-stack automaton over the stream, the writer    *)
(* the flattening of the tree.  Invariants: Write(Read(t)) = t (so order,   *)
(* keys and values are preserved), nesting depth bounded by the reader's    *)
(* limit, every proper prefix of a stream is rejected.                      *)
(***************************************************************************)
EXTENDS Integers, Sequences, FiniteSets, TLC, Json

CONSTANTS MaxTokens,   \* bound on the stream length (tokens)
          MaxDepthGen, \* bound on the nesting the environment generates
          Keys, Strs, Ints

ReaderMaxDepth == 127   \* maps nested deeper than this are rejected (the metadata map itself is level 1)

VARIABLES toks,     \* the token stream so far (the metadata map's content, its closing brace excluded)
          used,     \* Seq of key sets: keys already used in each open map (innermost last)
          done
vars == <<toks, used, done>>

Tok(t, x) == [t |-> t, x |-> x]

Init == toks = <<>> /\ used = << {} >> /\ done = FALSE

Room(n) == Len(toks) + n <= MaxTokens
AddStr == ~done /\ Room(2) /\ \E k \in Keys \ used[Len(used)], s \in Strs :
            /\ toks' = toks \o << Tok("key", k), Tok("str", s) >>
            /\ used' = [used EXCEPT ![Len(used)] = @ \cup {k}] /\ done' = FALSE
AddInt == ~done /\ Room(2) /\ \E k \in Keys \ used[Len(used)], n \in Ints :
            /\ toks' = toks \o << Tok("key", k), Tok("int", n) >>
            /\ used' = [used EXCEPT ![Len(used)] = @ \cup {k}] /\ done' = FALSE
\* opening a map needs room for its closing brace
Open == ~done /\ Room(3) /\ Len(used) <= MaxDepthGen /\ \E k \in Keys \ used[Len(used)] :
            /\ toks' = toks \o << Tok("key", k), Tok("open", 0) >>
            /\ used' = Append([used EXCEPT ![Len(used)] = @ \cup {k}], {}) /\ done' = FALSE
Close == ~done /\ Len(used) > 1
            /\ toks' = Append(toks, Tok("close", 0))
            /\ used' = SubSeq(used, 1, Len(used) - 1) /\ done' = FALSE
Finish == ~done /\ Len(used) = 1 /\ done' = TRUE /\ UNCHANGED <<toks, used>>
Next == AddStr \/ AddInt \/ Open \/ Close \/ Finish
Spec == Init /\ [][Next]_vars

(* ---- the reader: explicit stack of partially built maps ---- *)
\* a map is a sequence of <<key, value>>; a value is <<"s", str>>, <<"i", int>> or <<"m", map>>
\* state: <<stack of maps, pending key or "", status>>
RECURSIVE ReadFrom(_, _, _)
ReadFrom(ts, stack, key) ==
    IF ts = <<>> THEN (IF Len(stack) = 1 /\ key = "" THEN <<"ok", stack[1]>> ELSE <<"err", <<>>>>)
    ELSE LET t == Head(ts) rest == Tail(ts) top == stack[Len(stack)] IN
      CASE t.t = "key" -> IF key # "" THEN <<"err", <<>>>> ELSE ReadFrom(rest, stack, t.x)
        [] t.t = "str" -> IF key = "" THEN <<"err", <<>>>>
                          ELSE ReadFrom(rest, [stack EXCEPT ![Len(stack)] = Append(top, <<key, <<"s", t.x>>>>)], "")
        [] t.t = "int" -> IF key = "" THEN <<"err", <<>>>>
                          ELSE ReadFrom(rest, [stack EXCEPT ![Len(stack)] = Append(top, <<key, <<"i", t.x>>>>)], "")
        [] t.t = "open" -> IF key = "" \/ Len(stack) + 1 > ReaderMaxDepth THEN <<"err", <<>>>>
                           \* remember the key under which the new map will be stored
                           ELSE ReadFrom(rest, Append([stack EXCEPT ![Len(stack)] = Append(top, <<key, <<"pending">>>>)], <<>>), "")
        [] t.t = "close" -> IF key # "" \/ Len(stack) = 1 THEN <<"err", <<>>>>
                            ELSE LET below == stack[Len(stack) - 1]
                                     k == below[Len(below)][1]
                                     filled == [below EXCEPT ![Len(below)] = <<k, <<"m", top>>>>]
                                 IN ReadFrom(rest, Append(SubSeq(stack, 1, Len(stack) - 2), filled), "")
\* Keys are never "" in the model (the empty pending-key marker); the harness adds the empty key itself.
Read(ts) == ReadFrom(ts, << <<>> >>, "")

(* ---- the writer: flatten ---- *)
RECURSIVE WriteMap(_)
WriteMap(m) ==
    IF m = <<>> THEN <<>>
    ELSE LET k == Head(m)[1] v == Head(m)[2] IN
         << Tok("key", k) >>
         \o (CASE v[1] = "s" -> << Tok("str", v[2]) >>
               [] v[1] = "i" -> << Tok("int", v[2]) >>
               [] v[1] = "m" -> << Tok("open", 0) >> \o WriteMap(v[2]) \o << Tok("close", 0) >>)
         \o WriteMap(Tail(m))

RoundTrip == done => (Read(toks)[1] = "ok" /\ WriteMap(Read(toks)[2]) = toks)
\* an unfinished stream (open maps not closed, or a key without a value) is rejected
PrefixRejected == (~done /\ Len(used) > 1) => Read(toks)[1] = "err"
DepthBounded == Len(used) <= ReaderMaxDepth
Inv == RoundTrip /\ PrefixRejected /\ DepthBounded

Export == done => PrintT(<<"TREE", ToJson([tree |-> Read(toks)[2], ntoks |-> Len(toks)])>>)
=============================================================================
