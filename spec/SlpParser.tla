----------------------------- MODULE SlpParser -----------------------------
(***************************************************************************)
(* The event parser of the .slp reader: one action per arm of the reader's  *)
(* event dispatch, over an abstract ParseState.  Payloads are abstract      *)
(* TOKENS (the event's position in the history, a positive integer); 0 is   *)
(* the null token (an absent character's padding).  The harness turns       *)
(* tokens into bytes per concrete version and recovers them from the real   *)
(* columns, so "token t sits in cell (row, character, pre)" is a statement  *)
(* about the real code.                                                     *)
(*                                                                         *)
(* Framing regimes (selected by version gates in the code):                 *)
(*   "A"  version <  2.2 : no Frame Start / Frame End events                *)
(*   "B"  2.2 <= v < 3.0 : Frame Start only                                 *)
(*   "C"  v >= 3.0       : Frame Start, Items, Frame End                    *)
(* (C04 C06 C08 C12 C13; basis of C01 C02 C17.)                             *)
(***************************************************************************)
EXTENDS Integers, Sequences, FiniteSets

CONSTANTS Regime,   \* "A" | "B" | "C"
          Occ,      \* [0..3 -> {"none", "single", "ic"}]: what occupies each port
          Variant   \* set of defect variants to model instead of the intended behaviour
                    \* ({} = intended; "F1": no frame_close before an implicit frame open < 2.2;
                    \*  "F5": the writer's declared length always counts one Game End)

V22 == Regime \in {"B", "C"}
V30 == Regime = "C"

Ports == 0..3
Occupied == {p \in Ports : Occ[p] # "none"}
\* a character is <<port, follower-flag>>
Chars == {<<p, 0>> : p \in Occupied} \cup {<<p, 1>> : p \in {q \in Ports : Occ[q] = "ic"}}

\* characters in the canonical (recorder / writer) order: port ascending, leader before follower
CharsOfPort(p) == IF Occ[p] = "none" THEN <<>>
                  ELSE IF Occ[p] = "ic" THEN << <<p, 0>>, <<p, 1>> >> ELSE << <<p, 0>> >>
CharSeq == CharsOfPort(0) \o CharsOfPort(1) \o CharsOfPort(2) \o CharsOfPort(3)

FirstIndex == -123

VARIABLES
    ids,      \* Seq(Int): one frame id per frame row, in file order
    pre,      \* [Chars -> Seq(token)]: pre-frame cell per row (0 = absent)
    post,     \* [Chars -> Seq(token)]: post-frame cell per row (0 = absent)
    fstart,   \* Seq(token): frame-start column (regimes B, C)
    fend,     \* Seq(token): frame-end column (regime C)
    items,    \* Seq(token): flat item column (regime C)
    off,      \* Seq(Nat): item offsets, starts <<0>>; row i owns items off[i]+1 .. off[i+1]
    gend,     \* token of the Game End event, 0 = none
    gecko,    \* Seq(token): the splitter blocks that made up the Gecko-code blob (<<>> = none)
    gactual,  \* Nat: summed "actual size" of the Gecko blob
    acc,      \* Seq(token): splitter accumulator (blocks since the start; never cleared by the code's
              \*             append(): Vec::append leaves the accumulator EMPTY, see EvSplitter)
    accActual,\* Nat: summed actual sizes (never reset by the code)
    nev,      \* Nat: number of events consumed so far (bytes_read = header + sum of their sizes)
    status,   \* "run" | "ended" | "err"
    reason    \* why status = "err" (one of the Reject reasons), "" otherwise

pvars == <<ids, pre, post, fstart, fend, items, off, gend, gecko, gactual, acc, accActual, nev, status, reason>>
\* the variables that make up "the parsed game" (C08: unknown events leave them unchanged)
gameVars == <<ids, pre, post, fstart, fend, items, off, gend, gecko, gactual>>

Last(s) == s[Len(s)]
Zeros(n) == [i \in 1..n |-> 0]

PInit ==
    /\ ids = <<>>
    /\ pre = [c \in Chars |-> <<>>]
    /\ post = [c \in Chars |-> <<>>]
    /\ fstart = <<>> /\ fend = <<>> /\ items = <<>>
    /\ off = <<0>>
    /\ gend = 0 /\ gecko = <<>> /\ gactual = 0
    /\ acc = <<>> /\ accActual = 0
    /\ nev = 0 /\ status = "run" /\ reason = ""

(***************************************************************************)
(* frame_close: pad every character whose columns are shorter than the row  *)
(* count.  The code measures a character by its PRE column and pads pre and *)
(* post by the same amount.                                                 *)
(***************************************************************************)
Padded(col, c, n) == IF Len(pre[c]) < n THEN col[c] \o Zeros(n - Len(pre[c])) ELSE col[c]
ClosedPre(n)  == [c \in Chars |-> Padded(pre, c, n)]
ClosedPost(n) == [c \in Chars |-> Padded(post, c, n)]

Reject(r) ==
    /\ status' = "err" /\ reason' = r
    /\ UNCHANGED <<ids, pre, post, fstart, fend, items, off, gend, gecko, gactual, acc, accActual, nev>>

Consumed == nev' = nev + 1 /\ status' = status /\ reason' = reason

(* Which character an event addresses, or a reject reason.                                 *)
(* The code maps an unoccupied port to the first occupied port's columns (index 0) rather  *)
(* than rejecting it.  No listed property forbids that on ill-formed input; it is modelled *)
(* as the code does it, so that the edge is not a spurious disagreement.  With no occupied *)
(* port at all there is no column to index.                                                *)
FirstOccupied == CHOOSE q \in Occupied : \A r \in Occupied : q <= r
TargetPort(e) == IF Occ[e.p] # "none" THEN e.p ELSE FirstOccupied
TargetChar(e) == <<TargetPort(e), e.f>>
CharReason(e) ==
    IF e.p \notin Ports THEN "port_out_of_range"
    ELSE IF Occupied = {} THEN "no_ports"
    ELSE IF e.f = 1 /\ Occ[TargetPort(e)] # "ic" THEN "no_follower_on_port"
    ELSE "ok"

EvFrameStart(e) ==
    IF ~V22 THEN Reject("event_illegal_for_version")
    ELSE
        /\ ids' = Append(ids, e.id)
        /\ fstart' = Append(fstart, e.tok)
        \* no Frame End before 3.0: the next Frame Start closes the previous row
        /\ IF ~V30 THEN pre' = ClosedPre(Len(ids)) /\ post' = ClosedPost(Len(ids))
                   ELSE UNCHANGED <<pre, post>>
        /\ UNCHANGED <<fend, items, off, gend, gecko, gactual, acc, accActual>>
        /\ Consumed

EvPre(e) ==
    IF CharReason(e) # "ok" THEN Reject(CharReason(e))
    ELSE LET c == TargetChar(e) IN
    IF V22 THEN
        IF ids = <<>> THEN Reject("no_open_frame")
        ELSE IF Last(ids) # e.id THEN Reject("frame_id_mismatch")
        ELSE /\ pre' = [pre EXCEPT ![c] = Append(@, e.tok)]
             /\ UNCHANGED <<ids, post, fstart, fend, items, off, gend, gecko, gactual, acc, accActual>>
             /\ Consumed
    ELSE
        \* before 2.2 frames are implicit: a Pre event whose id is one more than the last row's
        \* id (first row: -123) closes that row and opens a new one
        LET last == IF ids = <<>> THEN FirstIndex - 1 ELSE Last(ids) IN
        IF e.id = last + 1 THEN
            /\ ids' = Append(ids, e.id)
            /\ IF "F1" \in Variant
               THEN pre' = [pre EXCEPT ![c] = Append(@, e.tok)] /\ post' = post
               ELSE /\ pre' = [ClosedPre(Len(ids)) EXCEPT ![c] = Append(@, e.tok)]
                    /\ post' = ClosedPost(Len(ids))
            /\ UNCHANGED <<fstart, fend, items, off, gend, gecko, gactual, acc, accActual>>
            /\ Consumed
        ELSE IF e.id = last THEN
            /\ pre' = [pre EXCEPT ![c] = Append(@, e.tok)]
            /\ UNCHANGED <<ids, post, fstart, fend, items, off, gend, gecko, gactual, acc, accActual>>
            /\ Consumed
        ELSE Reject("frame_id_mismatch")

EvPost(e) ==
    IF CharReason(e) # "ok" THEN Reject(CharReason(e))
    ELSE IF ids = <<>> THEN Reject("no_open_frame")
    ELSE IF Last(ids) # e.id THEN Reject("frame_id_mismatch")
    ELSE LET c == TargetChar(e) IN
         /\ post' = [post EXCEPT ![c] = Append(@, e.tok)]
         /\ UNCHANGED <<ids, pre, fstart, fend, items, off, gend, gecko, gactual, acc, accActual>>
         /\ Consumed

EvItem(e) ==
    IF ~V30 THEN Reject("event_illegal_for_version")
    ELSE IF ids = <<>> THEN Reject("no_open_frame")
    ELSE IF Last(ids) # e.id THEN Reject("frame_id_mismatch")
    ELSE /\ items' = Append(items, e.tok)
         /\ UNCHANGED <<ids, pre, post, fstart, fend, off, gend, gecko, gactual, acc, accActual>>
         /\ Consumed

EvFrameEnd(e) ==
    IF ~V30 THEN Reject("event_illegal_for_version")
    ELSE IF ids = <<>> THEN Reject("no_open_frame")
    ELSE IF Last(ids) # e.id THEN Reject("frame_id_mismatch")
    ELSE /\ off' = Append(off, Len(items))
         /\ fend' = Append(fend, e.tok)
         /\ pre' = ClosedPre(Len(ids)) /\ post' = ClosedPost(Len(ids))
         /\ UNCHANGED <<ids, fstart, items, gend, gecko, gactual, acc, accActual>>
         /\ Consumed

\* e.x = 1 marks a Game End block whose fields fail validation (bad method / LRAS / placement)
EvGameEnd(e) ==
    IF e.x = 1 THEN Reject("bad_end_field")
    ELSE /\ gend' = e.tok
         /\ nev' = nev + 1 /\ status' = "ended" /\ reason' = reason
         /\ UNCHANGED <<ids, pre, post, fstart, fend, items, off, gecko, gactual, acc, accActual>>

(***************************************************************************)
(* Message splitter (0x10): 512 data bytes, u16 actual size, wrapped code,  *)
(* final flag.  e.x = actual size (513 stands for "> 512"), e.f = final,    *)
(* e.p = wrapped code, e.id = 1 when the table declares a size other than   *)
(* 516 for the splitter.  On the final block the accumulated blocks are     *)
(* dispatched as an event of the wrapped code.  The actual-size sum is      *)
(* never reset by the code.                                                 *)
(***************************************************************************)
WrappedGecko == 61
WrappedPayloads == 53
WrappedStart == 54
EvSplitter(e) ==
    IF e.id = 1 THEN Reject("splitter_bad_size")
    ELSE IF e.x > 512 THEN Reject("splitter_actual_gt_512")
    ELSE IF e.f = 0 THEN
        /\ acc' = Append(acc, e.tok) /\ accActual' = accActual + e.x
        /\ UNCHANGED gameVars /\ Consumed
    ELSE IF e.p = WrappedGecko THEN
        /\ gecko' = Append(acc, e.tok) /\ gactual' = accActual + e.x
        /\ acc' = <<>> /\ accActual' = accActual + e.x
        /\ UNCHANGED <<ids, pre, post, fstart, fend, items, off, gend>> /\ Consumed
    ELSE IF e.p = WrappedPayloads THEN Reject("duplicate_payloads")
    ELSE IF e.p = WrappedStart THEN Reject("duplicate_start")
    ELSE \* wrapped unknown code, or a wrapped splitter: dispatched to nothing
        /\ acc' = <<>> /\ accActual' = accActual + e.x
        /\ UNCHANGED gameVars /\ Consumed

\* an event whose code is declared in the payload table but unknown to the library (e.x = code)
EvUnknown(e) ==
    /\ UNCHANGED gameVars /\ UNCHANGED <<acc, accActual>> /\ Consumed

\* an event whose code is NOT in the payload table
EvUndeclared(e) == Reject("undeclared_event")
EvDupPayloads(e) == Reject("duplicate_payloads")
EvDupStart(e) == Reject("duplicate_start")

Step(e) ==
    /\ status = "run"
    /\ CASE e.k = "fs" -> EvFrameStart(e)
         [] e.k = "pre" -> EvPre(e)
         [] e.k = "post" -> EvPost(e)
         [] e.k = "item" -> EvItem(e)
         [] e.k = "fe" -> EvFrameEnd(e)
         [] e.k = "ge" -> EvGameEnd(e)
         [] e.k = "split" -> EvSplitter(e)
         [] e.k = "unk" -> EvUnknown(e)
         [] e.k = "undeclared" -> EvUndeclared(e)
         [] e.k = "dup_payloads" -> EvDupPayloads(e)
         [] e.k = "dup_start" -> EvDupStart(e)

(***************************************************************************)
(* The one-shot reader closes a dangling frame after the event loop when    *)
(* the version has no Frame End events.                                     *)
(***************************************************************************)
Finalize ==
    /\ status \in {"run", "ended"}
    /\ IF ~V30 THEN pre' = ClosedPre(Len(ids)) /\ post' = ClosedPost(Len(ids))
               ELSE UNCHANGED <<pre, post>>
    /\ UNCHANGED <<ids, fstart, fend, items, off, gend, gecko, gactual, acc, accActual, nev, reason>>
    /\ status' = "done"

(***************************************************************************)
(* Invariants of the parser state                                           *)
(***************************************************************************)
NRows == Len(ids)

TypeOK ==
    /\ \A c \in Chars : Len(pre[c]) <= NRows /\ Len(post[c]) <= NRows
    /\ Len(off) >= 1 /\ off[1] = 0
    /\ \A i \in 1..(Len(off) - 1) : off[i] <= off[i + 1]
    /\ Last(off) <= Len(items)

\* a row is closed when the frame that opened it has been closed; in regime C that is the
\* number of Frame End events, otherwise every row but the last (the last is closed by Finalize)
ClosedRows == IF status = "done" THEN NRows
              ELSE IF V30 THEN Len(fend)
              ELSE IF NRows = 0 THEN 0 ELSE NRows - 1

\* every column of every character has exactly one entry per closed row (C04, last sentence)
ColumnsAligned ==
    /\ \A c \in Chars : Len(pre[c]) >= ClosedRows /\ Len(post[c]) >= ClosedRows
    /\ status = "done" =>
         /\ \A c \in Chars : Len(pre[c]) = NRows /\ Len(post[c]) = NRows
         /\ V22 => Len(fstart) = NRows
         /\ V30 => Len(fend) = NRows /\ Len(off) = NRows + 1

\* the single-row view (C13): what a row contains, as a record of tokens
RowView(i) ==
    [ id |-> ids[i],
      pre |-> [c \in Chars |-> pre[c][i]],
      post |-> [c \in Chars |-> post[c][i]],
      fstart |-> IF V22 THEN fstart[i] ELSE 0,
      fend |-> IF V30 THEN fend[i] ELSE 0,
      items |-> IF V30 THEN SubSeq(items, off[i] + 1, off[i + 1]) ELSE <<>> ]

=============================================================================
