------------------------------ MODULE MC_Ubjson ------------------------------
EXTENDS Ubjson
MCKeys == {"startAt", "b", "a"}
MCKeys2 == {"z", "a"}
MCStrs == {"", "a", "e2", "k3", "L255"}   \* names of string classes: empty, ASCII, 2-byte, 3-byte UTF-8, 255 bytes
MCStrs2 == {"", "k3"}
MCInts == {(-2147483647 - 1), -1, 0, 2147483647}
MCInts2 == {(-2147483647 - 1), 5209}
=============================================================================
