----------------------------- MODULE MC_Recorder -----------------------------
EXTENDS SlpRecorder
CONSTANTS OccName   \* names a port-occupancy pattern (cfg files cannot hold functions)

MCOcc == CASE OccName = "s1"     -> [p \in 0..3 |-> IF p = 0 THEN "single" ELSE "none"]
           [] OccName = "ic_s"   -> [p \in 0..3 |-> IF p = 0 THEN "ic" ELSE IF p = 2 THEN "single" ELSE "none"]
           [] OccName = "s_s"    -> [p \in 0..3 |-> IF p \in {1, 3} THEN "single" ELSE "none"]
           [] OccName = "ic4"    -> [p \in 0..3 |-> IF p \in {0, 1} THEN "ic" ELSE "single"]
           [] OccName = "none"   -> [p \in 0..3 |-> "none"]
           [] OccName = "ic3"    -> [p \in 0..3 |-> IF p = 3 THEN "ic" ELSE "none"]
           [] OccName = "mid"    -> [p \in 0..3 |-> IF p \in {1, 2} THEN "single" ELSE "none"]
           [] OccName = "s4"     -> [p \in 0..3 |-> "single"]
           [] OccName = "ic_ic"  -> [p \in 0..3 |-> IF p \in {0, 2} THEN "ic" ELSE "none"]   \* an Ice Climbers ditto
MCIdSteps == {1, 0, -1, 2}
MCIdStepsSmall == {1, -1}
=============================================================================
