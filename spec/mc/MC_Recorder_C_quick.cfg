SPECIFICATION Spec
CONSTANTS
  Regime = "C"
  OccName = "ic_s"
  Occ <- MCOcc
  Variant = {}
  MaxFrames = 2
  MaxItems = 1
  IdSteps <- MCIdSteps
  MaxGecko = 0
  EndChoices = {"single"}
  MetaChoices = {"some"}
INVARIANT RInv
INVARIANT Export
PROPERTY RowsMonotone
PROPERTY ClosedRowsStable
CHECK_DEADLOCK FALSE
