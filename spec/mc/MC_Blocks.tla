------------------------------- MODULE MC_Blocks -------------------------------
(* The optional-tail chain of the Game Start / Game End blocks (C05) as a state   *)
(* machine: the reader's cursor walks the chain of length-gated groups of a block *)
(* of a given length.  Checked against the closed-form GroupsPresent for every    *)
(* block length, and against the documented nominal lengths.                      *)
EXTENDS SlpLayout, TLC, Json

CONSTANTS MaxStartLen, MaxEndLen

VARIABLES kind,       \* "start" | "end"
          len,        \* block length (payload bytes)
          gi,         \* next group
          remaining,  \* bytes left in the block
          npresent,   \* groups read so far
          status      \* "walk" | "ok" | "err"
vars == <<kind, len, gi, remaining, npresent, status>>

Groups == IF kind = "start" THEN StartGroups ELSE EndGroups

Init == /\ kind \in {"start", "end"}
        /\ len \in 0..(IF kind = "start" THEN MaxStartLen ELSE MaxEndLen)
        /\ gi = 1 /\ remaining = len /\ npresent = 0 /\ status = "walk"

\* the reader: the first group is read unconditionally; every later group only if something is left
Step == /\ status = "walk"
        /\ IF gi > Len(Groups) THEN status' = "ok" /\ UNCHANGED <<gi, remaining, npresent>>
           ELSE IF gi > 1 /\ remaining = 0 THEN status' = "ok" /\ UNCHANGED <<gi, remaining, npresent>>
           ELSE IF remaining < Groups[gi].size THEN status' = "err" /\ UNCHANGED <<gi, remaining, npresent>>
           ELSE /\ remaining' = remaining - Groups[gi].size /\ gi' = gi + 1 /\ npresent' = npresent + 1
                /\ status' = "walk"
        /\ UNCHANGED <<kind, len>>
Spec == Init /\ [][Step]_vars

MachineIsFunction == status # "walk" => (IF status = "err" THEN -1 ELSE npresent) = GroupsPresent(Groups, len)
\* a block longer than every group keeps all groups and ignores the rest (newer versions: C08)
LongBlocks == (status = "ok" /\ len >= SumSizes(Groups)) => npresent = Len(Groups)
\* groups present are a prefix of the chain, and they fit
PrefixFits == status = "ok" => SumSizes(SubSeq(Groups, 1, npresent)) <= len
Inv == MachineIsFunction /\ LongBlocks /\ PrefixFits
Export == status # "walk" => PrintT(<<"BLK", ToJson([kind |-> kind, len |-> len, groups |-> IF status = "err" THEN -1 ELSE npresent])>>)
=============================================================================
