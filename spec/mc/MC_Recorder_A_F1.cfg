SPECIFICATION Spec
CONSTANTS
  Regime = "A"
  OccName = "s_s"
  Occ <- MCOcc
  Variant = {"F1"}
  MaxFrames = 3
  MaxItems = 0
  IdSteps <- MCIdSteps
  MaxGecko = 0
  EndChoices = {"single"}
  MetaChoices = {"some"}
INVARIANT RInv
CHECK_DEADLOCK FALSE
