----------------------------- MODULE MC_Adversary -----------------------------
EXTENDS SlpAdversary
CONSTANTS OccName
MCOcc == CASE OccName = "s1"     -> [p \in 0..3 |-> IF p = 0 THEN "single" ELSE "none"]
           [] OccName = "ic_s"   -> [p \in 0..3 |-> IF p = 0 THEN "ic" ELSE IF p = 2 THEN "single" ELSE "none"]
           [] OccName = "s_ic"   -> [p \in 0..3 |-> IF p = 1 THEN "single" ELSE IF p = 3 THEN "ic" ELSE "none"]
           [] OccName = "none"   -> [p \in 0..3 |-> "none"]
AllKinds == {"fs", "pre", "post", "item", "fe", "ge", "split", "unk", "undeclared", "dup"}
FrameKindsOnly == {"fs", "pre", "post", "item", "fe", "ge", "unk"}
=============================================================================
