----------------------------- MODULE MC_Tolerated -----------------------------
EXTENDS SlpTolerated
CONSTANTS OccName
MCOcc == CASE OccName = "s1"     -> [p \in 0..3 |-> IF p = 0 THEN "single" ELSE "none"]
           [] OccName = "ic"     -> [p \in 0..3 |-> IF p = 1 THEN "ic" ELSE "none"]
           [] OccName = "ic_s"   -> [p \in 0..3 |-> IF p = 0 THEN "ic" ELSE IF p = 2 THEN "single" ELSE "none"]
           [] OccName = "s_s"    -> [p \in 0..3 |-> IF p \in {1, 3} THEN "single" ELSE "none"]
MCIdSteps == {1, 0, -1, 2}
MCIdStepsSmall == {1, -1}
=============================================================================
