---------------------------- MODULE MC_LayoutWalk ----------------------------
(* The layout tables as a state space: the state is a version, a step moves to the  *)
(* next (major, minor).  Invariants: the two independent tables agree at every      *)
(* version; action properties: fields are append-only and gates monotone from one   *)
(* version to the next.  (C03, C05, C14, C20.)                                      *)
EXTENDS SlpLayout, TLC

VARIABLE v   \* <<major, minor, 0>>

MaxMajor == 4
Succ(w) == IF w[2] < 255 THEN <<w[1], w[2] + 1, 0>> ELSE <<w[1] + 1, 0, 0>>

Init == v = <<0, 1, 0>>
Next == v[1] <= MaxMajor /\ v' = Succ(v)
Spec == Init /\ [][Next]_v

TablesAgree == LayoutConsistentAt(v) /\ BlockConsistentAt(v)
Static == TableMonotone /\ StartFieldsInsideGroups /\ StartFieldsDisjoint

AppendOnly == [][AppendOnlyAt(v, v')]_v
\* every gate that is open at a version stays open at the next one
Thresholds == { <<f.maj, f.min>> : f \in UNION { {Table(S)[i] : i \in 1..Len(Table(S))} : S \in Structs } }
GatesMonotone == [][\A t \in Thresholds : Gte(v, t[1], t[2]) => Gte(v', t[1], t[2])]_v
\* the event set only grows
EventsMonotone == [][\A S \in Structs : EventExists(S, v) => EventExists(S, v')]_v
\* Gte agrees with the integer encoding
GteIsEncoding == \A t \in Thresholds : Gte(v, t[1], t[2]) <=> (Enc2(v[1], v[2]) >= Enc2(t[1], t[2]))
=============================================================================
