------------------------------ MODULE MC_Layout ------------------------------
(* Evaluates SlpLayout for every version, checks the two independent tables     *)
(* against each other, and exports the evaluated layout as JSON for the harness. *)
EXTENDS SlpLayout, TLC, Json, FiniteSets

\* every (major, minor) the writers support, plus a band above the ceiling
MinorsOf(M) == IF M = 0 THEN 1..255 ELSE IF M = 3 THEN 0..40 ELSE 0..255
AllVersions == { <<M, m, 0>> : M \in 0..3, m \in 0..255 } \ { <<0, 0, 0>> }
CheckedVersions == { v \in AllVersions : v[2] \in MinorsOf(v[1]) } \cup { <<4,0,0>>, <<9,9,0>>, <<255,255,0>> }

FieldJson(S, v) ==
    [ i \in 1..Len(Fields(S, v)) |->
        [ n |-> Fields(S, v)[i].n, t |-> Fields(S, v)[i].t, off |-> Offset(S, v, i),
          w |-> Width(Fields(S, v)[i].t),
          since |-> <<Fields(S, v)[i].maj, Fields(S, v)[i].min>> ] ]

StructJson(S, v) ==
    [ code |-> Code(S), exists |-> EventExists(S, v), size |-> PayloadSize(S, v),
      hdr |-> HeaderLen(S), fields |-> FieldJson(S, v) ]

\* full table (all fields ever), so the harness knows which fields must be ABSENT at v
TableJson(S) == [ i \in 1..Len(Table(S)) |-> [ n |-> Table(S)[i].n, t |-> Table(S)[i].t,
                                              since |-> <<Table(S)[i].maj, Table(S)[i].min>> ] ]

LayoutJson(v) ==
    [ ver |-> <<v[1], v[2]>>,
      pre |-> StructJson("pre", v), post |-> StructJson("post", v), start |-> StructJson("start", v),
      end |-> StructJson("end", v), item |-> StructJson("item", v),
      start_len |-> NominalLen(StartGroups, v), end_len |-> NominalLen(EndGroups, v),
      start_groups |-> Len(GroupsAt(StartGroups, v)), end_groups |-> Len(GroupsAt(EndGroups, v)),
      gecko |-> Gte(v, 3, 3) ]

\* layouts are identical inside a class, so only class representatives are exported, with the
\* class each version belongs to
Boundaries == { <<f.maj, f.min>> : f \in UNION { {Table(S)[i] : i \in 1..Len(Table(S))} : S \in Structs } }
              \cup { <<g.maj, g.min>> : g \in {StartGroups[i] : i \in 1..Len(StartGroups)} }
              \cup { <<g.maj, g.min>> : g \in {EndGroups[i] : i \in 1..Len(EndGroups)} }
              \cup { <<2,2>>, <<3,0>>, <<3,3>> }

ClassOf(v) == CHOOSE b \in Boundaries :
                 /\ Gte(v, b[1], b[2])
                 /\ \A c \in Boundaries : Gte(v, c[1], c[2]) => Enc2(c[1], c[2]) <= Enc2(b[1], b[2])

GroupJson(groups) == [ i \in 1..Len(groups) |->
    [ name |-> groups[i].name, since |-> <<groups[i].maj, groups[i].min>>, size |-> groups[i].size,
      start |-> GroupStart(groups, i) ] ]

SFJson(fs) == [ i \in 1..Len(fs) |-> [ n |-> fs[i].n, k |-> fs[i].k, g |-> fs[i].g, off |-> fs[i].off,
                                       w |-> IF fs[i].k \in {"endmethod","lras","placement"} THEN 1 ELSE KindWidth(fs[i].k) ] ]

BlocksJson ==
    [ start_groups |-> GroupJson(StartGroups), end_groups |-> GroupJson(EndGroups),
      start_global |-> SFJson(StartGlobalFields),
      start_player |-> [ p \in 1..4 |-> SFJson(StartPlayerFields(p - 1)) ],
      end_fields |-> SFJson(EndFields),
      start_len_outcome |-> [ l \in 1..901 |-> GroupsPresent(StartGroups, l - 1) ],
      end_len_outcome |-> [ l \in 1..13 |-> GroupsPresent(EndGroups, l - 1) ],
      player_types |-> [ b \in 1..3 |-> PlayerTypeName(b - 1) ],
      ucf_names |-> [ x \in 1..2 |-> UcfName(x) ],
      languages |-> [ b \in 1..2 |-> LanguageName(b - 1) ],
      end_methods |-> [ b \in {"0","1","2","3","7"} |->
                          EndMethodName(CASE b = "0" -> 0 [] b = "1" -> 1 [] b = "2" -> 2 [] b = "3" -> 3 [] b = "7" -> 7) ],
      ports |-> [ p \in 1..4 |-> PortName(p - 1) ],
      ice_climbers |-> IceClimbers,
      tables |-> [ pre |-> TableJson("pre"), post |-> TableJson("post"), start |-> TableJson("start"),
                   end |-> TableJson("end"), item |-> TableJson("item") ],
      max_supported |-> MaxSupported, peppi_min |-> PeppiMin, peppi_current |-> PeppiCurrent ]

ASSUME TableMonotone
ASSUME StartFieldsInsideGroups
ASSUME StartFieldsDisjoint
ASSUME \A v \in CheckedVersions : LayoutConsistentAt(v) /\ BlockConsistentAt(v)
ASSUME \A b \in Boundaries, c \in Boundaries : AppendOnlyAt(<<b[1],b[2],0>>, <<c[1],c[2],0>>)
\* every checked version has the layout of its class representative
ASSUME \A v \in CheckedVersions :
         LET c == ClassOf(v) IN LayoutJson(v) = [LayoutJson(<<c[1], c[2], 0>>) EXCEPT !.ver = <<v[1], v[2]>>]

ASSUME PrintT(<<"BLOCKS", ToJson(BlocksJson)>>)
ASSUME \A b \in Boundaries : PrintT(<<"LAYOUT", ToJson(LayoutJson(<<b[1], b[2], 0>>))>>)
ASSUME PrintT(<<"NCHECKED", Cardinality(CheckedVersions), Cardinality(Boundaries)>>)

VARIABLE x
Init == x = 0
Next == x' = x /\ FALSE
=============================================================================
