------------------------------ MODULE MC_Version ------------------------------
(* Version order, writers' ceiling, Display/Parse (C09, C20) as two small state     *)
(* spaces: a grid of version triples, and all strings up to a length bound.         *)
EXTENDS SlpVersion, TLC, Json, FiniteSets

CONSTANTS MaxLen, Mode,   \* Mode: "grid" | "strings"
          AlphabetName

VARIABLES v, s
vars == <<v, s>>

Comp == {0, 1, 2, 3, 4, 15, 16, 17, 100, 254, 255}
Grid == Comp \X Comp \X Comp
\* "~" stands for a character that is neither a digit, a dot nor a sign; the harness concretises it as each of
\* NUL, line feed, tab, carriage return, no-break space, ideographic space, U+FEFF, '_' and ','
Alphabet == CASE AlphabetName = "wide" -> {"0", "1", "2", "5", "6", ".", "+", "-", " ", "a", "~"}
              [] AlphabetName = "mid" -> {"0", "2", "5", "6", ".", "+", "a", "~"}
              [] AlphabetName = "narrow" -> {"0", "3", "5", ".", "+"}

Init == s = <<>> /\ (IF Mode = "grid" THEN v \in Grid ELSE v = <<0, 0, 0>>)
NextGrid == FALSE /\ UNCHANGED vars
NextStr == Mode = "strings" /\ Len(s) < MaxLen /\ \E c \in Alphabet : s' = Append(s, c) /\ v' = v
Next == NextGrid \/ NextStr
Spec == Init /\ [][Next]_vars

(* C09: the ceiling compares the full triple lexicographically = integer encoding *)
CeilingIsEncoding == WriteRefused(v) <=> (Enc3(v) > Enc3(MaxSupported))
PeppiGateIsEncoding == PeppiReadRefused(v) <=> (Enc3(v) < Enc3(PeppiMin))
(* C20: at-least test = lexicographic order on (major, minor) = integer encoding; less-than is its negation *)
GteIsEncoding == \A M \in Comp, m \in Comp : (Gte(v, M, m) <=> Enc2(v[1], v[2]) >= Enc2(M, m)) /\ (Lt(v, M, m) <=> ~Gte(v, M, m))
(* monotone gates: a newer version passes every gate an older one passes *)
Small == {0, 1, 2, 3, 16, 17, 255}
GteMonotone == \A w1 \in Small, w2 \in Small, M \in Small, m \in Small :
                  (Enc2(v[1], v[2]) <= Enc2(w1, w2) /\ Gte(v, M, m)) => Gte(<<w1, w2, 0>>, M, m)
(* Display / Parse round trip *)
RoundTrip == Parse(Display(v)) = v
(* strings: what is accepted parses to bytes and displays back to a string that parses to the same version *)
AcceptedSane == Parse(s) # <<>> => (Parse(s) \in Version /\ Parse(Display(Parse(s))) = Parse(s))
(* a string with other than exactly two dots is rejected; so is one with an empty or non-numeric piece *)
DotsRule == (Cardinality({i \in 1..Len(s) : s[i] = "."}) # 2) => Parse(s) = <<>>

Inv == CeilingIsEncoding /\ PeppiGateIsEncoding /\ GteIsEncoding /\ GteMonotone /\ RoundTrip /\ AcceptedSane /\ DotsRule

RECURSIVE Join(_)
Join(cs) == IF cs = <<>> THEN "" ELSE Head(cs) \o Join(Tail(cs))
Export ==
    IF Mode = "grid"
    THEN PrintT(<<"VGRID", ToJson([v |-> v, refused |-> WriteRefused(v), peppi_refused |-> PeppiReadRefused(v), display |-> Join(Display(v))])>>)
    ELSE PrintT(<<"VSTR", ToJson([s |-> Join(s), parse |-> Parse(s)])>>)
=============================================================================
