---------------------------- MODULE SlpParserLens ----------------------------
(***************************************************************************)
(* Length abstraction of SlpParser under the recorder's canonical event     *)
(* order: only the LENGTHS of the columns are kept (naturals), so histories *)
(* are unbounded.  The inductive invariant IndInv ("between frames every    *)
(* column has exactly one entry per row; inside an open frame each column   *)
(* has the row count or one less, post never ahead of pre") is discharged   *)
(* by Apalache: Init => IndInv and IndInv /\ Next => IndInv'.  This is the  *)
(* unbounded-length part of C04's "every column has exactly one entry per   *)
(* frame row"; TLC checks that every reachable state of the full parser     *)
(* model maps into IndInv (SlpRecorder!LensInv).                            *)
(***************************************************************************)
EXTENDS Integers

CONSTANTS
    \* @type: Str;
    Regime,
    \* @type: Set(Int);
    Chars      \* characters, as opaque ids

VARIABLES
    \* @type: Int;
    nrows,
    \* @type: Int -> Int;
    lenPre,
    \* @type: Int -> Int;
    lenPost,
    \* @type: Int;
    nstart,
    \* @type: Int;
    nend,
    \* @type: Bool;
    open

V22 == Regime \in {"B", "C"}
V30 == Regime = "C"

ConstInit == Regime \in {"A", "B", "C"} /\ Chars = {1, 2, 3}

Init ==
    /\ nrows = 0 /\ nstart = 0 /\ nend = 0 /\ open = FALSE
    /\ lenPre = [c \in Chars |-> 0] /\ lenPost = [c \in Chars |-> 0]

\* frame_close: pad every character measured by its PRE column, post by the same amount
\* @type: (Int -> Int, Int) => (Int -> Int);
Pad(col, n) == [c \in Chars |-> IF lenPre[c] < n THEN col[c] + (n - lenPre[c]) ELSE col[c]]

\* regimes B, C: a Frame Start event opens a row (and, before 3.0, closes the previous one)
FrameStart ==
    /\ V22 /\ (V30 => ~open)
    \* the recorder finished the previous frame: every character that has a Pre also has its Post
    /\ (open => \A d \in Chars : lenPre[d] = nrows => lenPost[d] = nrows)
    /\ nrows' = nrows + 1 /\ nstart' = nstart + 1 /\ open' = TRUE
    /\ IF ~V30 THEN lenPre' = Pad(lenPre, nrows) /\ lenPost' = Pad(lenPost, nrows)
               ELSE UNCHANGED <<lenPre, lenPost>>
    /\ UNCHANGED nend

\* regime A: the first Pre event of a new frame closes the previous row and opens the next
PreOpens(c) ==
    /\ ~V22
    /\ (open => \E d \in Chars : lenPre[d] = nrows)     \* a frame exists only through its events
    /\ (open => \A d \in Chars : lenPre[d] = nrows => lenPost[d] = nrows)   \* the recorder finished the frame
    /\ nrows' = nrows + 1 /\ open' = TRUE
    /\ lenPre' = [Pad(lenPre, nrows) EXCEPT ![c] = @ + 1]
    /\ lenPost' = Pad(lenPost, nrows)
    /\ UNCHANGED <<nstart, nend>>

\* a Pre event of a character not yet seen in the open frame
Pre(c) ==
    /\ open /\ lenPre[c] = nrows - 1
    /\ lenPre' = [lenPre EXCEPT ![c] = @ + 1]
    /\ UNCHANGED <<nrows, lenPost, nstart, nend, open>>

Post(c) ==
    /\ open /\ lenPre[c] = nrows /\ lenPost[c] = nrows - 1
    /\ lenPost' = [lenPost EXCEPT ![c] = @ + 1]
    /\ UNCHANGED <<nrows, lenPre, nstart, nend, open>>

\* regime C: Frame End closes the row; every present character has both its events
FrameEnd ==
    /\ V30 /\ open
    /\ \A c \in Chars : lenPre[c] = nrows => lenPost[c] = nrows
    /\ nend' = nend + 1 /\ open' = FALSE
    /\ lenPre' = Pad(lenPre, nrows) /\ lenPost' = Pad(lenPost, nrows)
    /\ UNCHANGED <<nrows, nstart>>

\* the reader's dangling-frame close (before 3.0) at the end of the file
Finalize ==
    /\ ~V30 /\ open
    /\ \A c \in Chars : lenPre[c] = nrows => lenPost[c] = nrows
    /\ open' = FALSE
    /\ lenPre' = Pad(lenPre, nrows) /\ lenPost' = Pad(lenPost, nrows)
    /\ UNCHANGED <<nrows, nstart, nend>>

Next == FrameStart \/ FrameEnd \/ Finalize \/ (\E c \in Chars : PreOpens(c) \/ Pre(c) \/ Post(c))

(* ---- the inductive invariant ---- *)
IndInv ==
    /\ nrows >= 0 /\ nstart >= 0 /\ nend >= 0
    /\ V22 => nstart = nrows
    /\ ~V22 => nstart = 0
    /\ ~V30 => nend = 0
    /\ (~open) =>
         /\ \A c \in Chars : lenPre[c] = nrows /\ lenPost[c] = nrows
         /\ V30 => nend = nrows
    /\ open =>
         /\ nrows >= 1
         /\ V30 => nend = nrows - 1
         /\ \A c \in Chars :
              /\ lenPre[c] \in {nrows - 1, nrows}
              /\ lenPost[c] \in {nrows - 1, nrows}
              /\ lenPost[c] <= lenPre[c]

\* for the inductive step: any state satisfying IndInv
IndInit ==
    /\ nrows \in Int /\ nstart \in Int /\ nend \in Int /\ open \in BOOLEAN
    /\ lenPre \in [Chars -> Int] /\ lenPost \in [Chars -> Int]
    /\ IndInv

\* what C04 states: once no frame is open, every column has exactly one entry per row
Aligned == (~open) => \A c \in Chars : lenPre[c] = nrows /\ lenPost[c] = nrows
=============================================================================
