----------------------------- MODULE SlpLayout -----------------------------
(***************************************************************************)
(* Per-version byte layout of the Slippi events, transcribed from the      *)
(* Slippi replay specification (NOT from the repository's generated code).  *)
(* Offsets are relative to the event's command byte (command byte = 0x0).   *)
(*                                                                         *)
(* Two independent tables are kept and cross-checked by TLC:               *)
(*   1. field tables with the version that introduced each field AND the   *)
(*      documented absolute offset of the field (entered by hand);         *)
(*   2. documented payload sizes per version class.                        *)
(* The running sum of table 1 must reproduce both the documented offsets   *)
(* and table 2 for every version.  The harness loads the evaluated layout  *)
(* from TLC; it has no copy of any offset, size or gate.                   *)
(* (C03, C05, C14; used by every concretisation.)                          *)
(***************************************************************************)
EXTENDS Integers, Sequences, SlpVersion

Width(t) == CASE t \in {"u8", "i8"} -> 1
              [] t \in {"u16", "i16"} -> 2
              [] t \in {"u32", "i32", "f32"} -> 4

\* n: dotted path (peppi's field names), t: primitive type, maj.min: version that introduced it,
\* d: documented offset from the command byte
F(n, t, maj, min, d) == [n |-> n, t |-> t, maj |-> maj, min |-> min, d |-> d]

(* ---- event codes ---- *)
CodeSplitter == 16   \* 0x10
CodePayloads == 53   \* 0x35
CodeGameStart == 54  \* 0x36
CodePre == 55        \* 0x37
CodePost == 56       \* 0x38
CodeGameEnd == 57    \* 0x39
CodeFrameStart == 58 \* 0x3A
CodeItem == 59       \* 0x3B
CodeFrameEnd == 60   \* 0x3C
CodeGecko == 61      \* 0x3D

Structs == {"pre", "post", "start", "end", "item"}

Code(S) == CASE S = "pre" -> CodePre [] S = "post" -> CodePost [] S = "start" -> CodeFrameStart
             [] S = "end" -> CodeFrameEnd [] S = "item" -> CodeItem

\* header fields that precede the struct's own fields in the payload
HeaderFields(S) ==
    IF S \in {"pre", "post"}
    THEN << F("id", "i32", 0, 1, 1), F("port", "u8", 0, 1, 5), F("follower", "u8", 0, 1, 6) >>
    ELSE << F("id", "i32", 0, 1, 1) >>

\* first version in which the event exists at all
EventSince(S) == CASE S \in {"pre", "post"} -> <<0, 1>>
                   [] S = "start" -> <<2, 2>>
                   [] S \in {"end", "item"} -> <<3, 0>>
EventExists(S, v) == Gte(v, EventSince(S)[1], EventSince(S)[2])

PreTable == <<
    F("random_seed", "u32", 0, 1, 7),
    F("state", "u16", 0, 1, 11),
    F("position.x", "f32", 0, 1, 13),
    F("position.y", "f32", 0, 1, 17),
    F("direction", "f32", 0, 1, 21),
    F("joystick.x", "f32", 0, 1, 25),
    F("joystick.y", "f32", 0, 1, 29),
    F("cstick.x", "f32", 0, 1, 33),
    F("cstick.y", "f32", 0, 1, 37),
    F("triggers", "f32", 0, 1, 41),
    F("buttons", "u32", 0, 1, 45),
    F("buttons_physical", "u16", 0, 1, 49),
    F("triggers_physical.l", "f32", 0, 1, 51),
    F("triggers_physical.r", "f32", 0, 1, 55),
    F("raw_analog_x", "i8", 1, 2, 59),
    F("percent", "f32", 1, 4, 60),
    F("raw_analog_y", "i8", 3, 15, 64) >>

PostTable == <<
    F("character", "u8", 0, 1, 7),
    F("state", "u16", 0, 1, 8),
    F("position.x", "f32", 0, 1, 10),
    F("position.y", "f32", 0, 1, 14),
    F("direction", "f32", 0, 1, 18),
    F("percent", "f32", 0, 1, 22),
    F("shield", "f32", 0, 1, 26),
    F("last_attack_landed", "u8", 0, 1, 30),
    F("combo_count", "u8", 0, 1, 31),
    F("last_hit_by", "u8", 0, 1, 32),
    F("stocks", "u8", 0, 1, 33),
    F("state_age", "f32", 0, 2, 34),
    F("state_flags.0", "u8", 2, 0, 38),
    F("state_flags.1", "u8", 2, 0, 39),
    F("state_flags.2", "u8", 2, 0, 40),
    F("state_flags.3", "u8", 2, 0, 41),
    F("state_flags.4", "u8", 2, 0, 42),
    F("misc_as", "f32", 2, 0, 43),
    F("airborne", "u8", 2, 0, 47),
    F("ground", "u16", 2, 0, 48),
    F("jumps", "u8", 2, 0, 50),
    F("l_cancel", "u8", 2, 0, 51),
    F("hurtbox_state", "u8", 2, 1, 52),
    F("velocities.self_x_air", "f32", 3, 5, 53),
    F("velocities.self_y", "f32", 3, 5, 57),
    F("velocities.knockback_x", "f32", 3, 5, 61),
    F("velocities.knockback_y", "f32", 3, 5, 65),
    F("velocities.self_x_ground", "f32", 3, 5, 69),
    F("hitlag", "f32", 3, 8, 73),
    F("animation_index", "u32", 3, 11, 77),
    F("last_hit_by_instance", "u16", 3, 16, 81),
    F("instance_id", "u16", 3, 16, 83) >>

ItemTable == <<
    F("type", "u16", 3, 0, 5),
    F("state", "u8", 3, 0, 7),
    F("direction", "f32", 3, 0, 8),
    F("velocity.x", "f32", 3, 0, 12),
    F("velocity.y", "f32", 3, 0, 16),
    F("position.x", "f32", 3, 0, 20),
    F("position.y", "f32", 3, 0, 24),
    F("damage", "u16", 3, 0, 28),
    F("timer", "f32", 3, 0, 30),
    F("id", "u32", 3, 0, 34),
    F("misc.0", "u8", 3, 2, 38),
    F("misc.1", "u8", 3, 2, 39),
    F("misc.2", "u8", 3, 2, 40),
    F("misc.3", "u8", 3, 2, 41),
    F("owner", "i8", 3, 6, 42),
    F("instance_id", "u16", 3, 16, 43) >>

StartTable == <<
    F("random_seed", "u32", 2, 2, 5),
    F("scene_frame_counter", "u32", 3, 10, 9) >>

EndTable == <<
    F("latest_finalized_frame", "i32", 3, 7, 5) >>

Table(S) == CASE S = "pre" -> PreTable [] S = "post" -> PostTable [] S = "start" -> StartTable
              [] S = "end" -> EndTable [] S = "item" -> ItemTable

\* the struct's own fields present at version v, in payload order
Fields(S, v) == SelectSeq(Table(S), LAMBDA f : Gte(v, f.maj, f.min))

RECURSIVE SumWidth(_)
SumWidth(fs) == IF fs = <<>> THEN 0 ELSE Width(Head(fs).t) + SumWidth(Tail(fs))

HeaderLen(S) == 1 + SumWidth(HeaderFields(S))   \* command byte + header fields

\* running-sum offset (from the command byte) of the i-th present field
Offset(S, v, i) == HeaderLen(S) + SumWidth(SubSeq(Fields(S, v), 1, i - 1))

\* payload size as declared in the payload table (command byte excluded)
PayloadSize(S, v) == HeaderLen(S) - 1 + SumWidth(Fields(S, v))

(* ---- table 2: documented payload sizes, by the first version of each size class ---- *)
DocSizes(S) ==
    CASE S = "pre"   -> << <<0,1,58>>, <<1,2,59>>, <<1,4,63>>, <<3,15,64>> >>
      [] S = "post"  -> << <<0,1,33>>, <<0,2,37>>, <<2,0,51>>, <<2,1,52>>, <<3,5,72>>, <<3,8,76>>,
                           <<3,11,80>>, <<3,16,84>> >>
      [] S = "start" -> << <<2,2,8>>, <<3,10,12>> >>
      [] S = "end"   -> << <<3,0,4>>, <<3,7,8>> >>
      [] S = "item"  -> << <<3,0,37>>, <<3,2,41>>, <<3,6,42>>, <<3,16,44>> >>

RECURSIVE LastApplicable(_, _, _)
LastApplicable(rows, v, acc) ==
    IF rows = <<>> THEN acc
    ELSE LastApplicable(Tail(rows), v,
                        IF Gte(v, Head(rows)[1], Head(rows)[2]) THEN Head(rows)[3] ELSE acc)
DocSize(S, v) == LastApplicable(DocSizes(S), v, 0)

(* ---- consistency of the two tables (checked by TLC for every version in a given set) ---- *)
LayoutConsistentAt(v) ==
    \A S \in Structs :
        EventExists(S, v) =>
            /\ PayloadSize(S, v) = DocSize(S, v)
            /\ \A i \in 1..Len(Fields(S, v)) : Offset(S, v, i) = Fields(S, v)[i].d

\* fields are append-only: the fields of an older version are a prefix of those of a newer one
IsPrefixSeq(a, b) == Len(a) <= Len(b) /\ SubSeq(b, 1, Len(a)) = a
AppendOnlyAt(v, w) ==
    \A S \in Structs : (Enc2(v[1], v[2]) <= Enc2(w[1], w[2])) => IsPrefixSeq(Fields(S, v), Fields(S, w))

\* field "since" versions never decrease along a table (so nested gates in the code are sound)
TableMonotone ==
    \A S \in Structs : \A i \in 1..(Len(Table(S)) - 1) :
        Enc2(Table(S)[i].maj, Table(S)[i].min) <= Enc2(Table(S)[i + 1].maj, Table(S)[i + 1].min)

(***************************************************************************)
(* Game End block (payload of event 0x39): a chain of length-gated groups.  *)
(***************************************************************************)
G(name, maj, min, size) == [name |-> name, maj |-> maj, min |-> min, size |-> size]

EndGroups == << G("method", 0, 1, 1), G("lras", 2, 0, 1), G("placements", 3, 13, 4) >>

EndMethods == {0, 1, 2, 3, 7}
EndMethodName(b) == CASE b = 0 -> "Unresolved" [] b = 1 -> "Time" [] b = 2 -> "Game"
                      [] b = 3 -> "Resolved" [] b = 7 -> "NoContest"

(***************************************************************************)
(* Game Start block (payload of event 0x36).                                *)
(***************************************************************************)
StartGroups == <<
    G("base", 0, 1, 320),        \* version .. random seed
    G("ucf", 1, 0, 32),          \* 4 x (dashback u32, shield drop u32)
    G("name_tag", 1, 3, 64),     \* 4 x 16
    G("pal", 1, 5, 1),
    G("frozen_ps", 2, 0, 1),
    G("scene", 3, 7, 2),
    G("netplay", 3, 9, 164),     \* 4 x 31 display names, then 4 x 10 connect codes
    G("uid", 3, 11, 116),        \* 4 x 29
    G("language", 3, 12, 1),
    G("match", 3, 14, 59) >>     \* 51 id, u32 game number, u32 tiebreaker

RECURSIVE SumSizes(_)
SumSizes(gs) == IF gs = <<>> THEN 0 ELSE Head(gs).size + SumSizes(Tail(gs))

GroupsAt(groups, v) == SelectSeq(groups, LAMBDA g : Gte(v, g.maj, g.min))
\* nominal block length (payload bytes) a recorder of version v produces
NominalLen(groups, v) == SumSizes(GroupsAt(groups, v))

\* offset (from the command byte) at which group i starts
GroupStart(groups, i) == 1 + SumSizes(SubSeq(groups, 1, i - 1))

\* The reader's rule: walk the chain; a group is read when at least one byte remains at its
\* start; a group that starts inside the block but does not fit is an error; once the block is
\* exhausted all later groups are absent.  Result: number of groups present, or -1 for error.
\* The first group is mandatory.
RECURSIVE ChainWalk(_, _, _, _)
ChainWalk(groups, i, remaining, n) ==
    IF i > Len(groups) THEN n
    ELSE IF remaining = 0 /\ i > 1 THEN n
    ELSE IF remaining < groups[i].size THEN -1
    ELSE ChainWalk(groups, i + 1, remaining - groups[i].size, n + 1)
GroupsPresent(groups, len) == ChainWalk(groups, 1, len, 0)

\* documented nominal lengths of the ten Game Start layouts and three Game End layouts
DocStartLens == << <<0,1,320>>, <<1,0,352>>, <<1,3,416>>, <<1,5,417>>, <<2,0,418>>, <<3,7,420>>,
                   <<3,9,584>>, <<3,11,700>>, <<3,12,701>>, <<3,14,760>> >>
DocEndLens == << <<0,1,1>>, <<2,0,2>>, <<3,13,6>> >>

BlockConsistentAt(v) ==
    /\ NominalLen(StartGroups, v) = LastApplicable(DocStartLens, v, 0)
    /\ NominalLen(EndGroups, v) = LastApplicable(DocEndLens, v, 0)
    /\ GroupsPresent(StartGroups, NominalLen(StartGroups, v)) = Len(GroupsAt(StartGroups, v))
    /\ GroupsPresent(EndGroups, NominalLen(EndGroups, v)) = Len(GroupsAt(EndGroups, v))

(* Mapped fields of the Game Start block.  g: group; k: kind of value.                     *)
(* kinds: u8 i8 u16 u32 f32 bool bytes4 bytes5 and the validated kinds ptype ucf lang      *)
(* sjis16 sjis31 sjis10 utf8z29 utf8z51.  off: documented offset from the command byte.    *)
SF(n, k, g, off) == [n |-> n, k |-> k, g |-> g, off |-> off]

PlayerBase(i) == 101 + 36 * i    \* 0x65 + 0x24 i, i in 0..5 (only 0..3 are ports)
StartPlayerFields(i) == <<
    SF("character", "u8", "base", PlayerBase(i)),
    SF("type", "ptype", "base", PlayerBase(i) + 1),
    SF("stocks", "u8", "base", PlayerBase(i) + 2),
    SF("costume", "u8", "base", PlayerBase(i) + 3),
    SF("team.shade", "u8", "base", PlayerBase(i) + 7),
    SF("handicap", "u8", "base", PlayerBase(i) + 8),
    SF("team.color", "u8", "base", PlayerBase(i) + 9),
    SF("bitfield", "u8", "base", PlayerBase(i) + 12),
    SF("cpu_level", "u8", "base", PlayerBase(i) + 15),
    SF("offense_ratio", "f32", "base", PlayerBase(i) + 24),
    SF("defense_ratio", "f32", "base", PlayerBase(i) + 28),
    SF("model_scale", "f32", "base", PlayerBase(i) + 32),
    SF("ucf.dash_back", "ucf", "ucf", 321 + 8 * i),
    SF("ucf.shield_drop", "ucf", "ucf", 325 + 8 * i),
    SF("name_tag", "sjis16", "name_tag", 353 + 16 * i),
    SF("netplay.name", "sjis31", "netplay", 421 + 31 * i),
    SF("netplay.code", "sjis10", "netplay", 545 + 10 * i),
    SF("netplay.suid", "utf8z29", "uid", 585 + 29 * i) >>

StartGlobalFields == <<
    SF("slippi.version.0", "u8", "base", 1),
    SF("slippi.version.1", "u8", "base", 2),
    SF("slippi.version.2", "u8", "base", 3),
    SF("bitfield", "bytes4", "base", 5),
    SF("is_raining_bombs", "bool", "base", 11),
    SF("is_teams", "bool", "base", 13),
    SF("item_spawn_frequency", "i8", "base", 16),
    SF("self_destruct_score", "i8", "base", 17),
    SF("stage", "u16", "base", 19),
    SF("timer", "u32", "base", 21),
    SF("item_spawn_bitfield", "bytes5", "base", 40),
    SF("damage_ratio", "f32", "base", 53),
    SF("random_seed", "u32", "base", 317),
    SF("is_pal", "bool", "pal", 417),
    SF("is_frozen_ps", "bool", "frozen_ps", 418),
    SF("scene.minor", "u8", "scene", 419),
    SF("scene.major", "u8", "scene", 420),
    SF("language", "lang", "language", 701),
    SF("match.id", "utf8z51", "match", 702),
    SF("match.game", "u32", "match", 753),
    SF("match.tiebreaker", "u32", "match", 757) >>

KindWidth(k) == CASE k \in {"u8", "i8", "bool", "ptype", "lang"} -> 1
                  [] k = "u16" -> 2
                  [] k \in {"u32", "f32", "ucf", "bytes4"} -> 4
                  [] k = "bytes5" -> 5
                  [] k = "sjis16" -> 16 [] k = "sjis31" -> 31 [] k = "sjis10" -> 10
                  [] k = "utf8z29" -> 29 [] k = "utf8z51" -> 51

GroupIndex(groups, name) == CHOOSE i \in 1..Len(groups) : groups[i].name = name

\* every mapped field lies inside its group
StartFieldsInsideGroups ==
    LET inside(f) == LET i == GroupIndex(StartGroups, f.g) IN
                     /\ f.off >= GroupStart(StartGroups, i)
                     /\ f.off + KindWidth(f.k) <= GroupStart(StartGroups, i) + StartGroups[i].size
    IN /\ \A j \in 1..Len(StartGlobalFields) : inside(StartGlobalFields[j])
       /\ \A p \in 0..3 : \A j \in 1..Len(StartPlayerFields(p)) : inside(StartPlayerFields(p)[j])

\* no two mapped fields of the Game Start block overlap
StartFieldsDisjoint ==
    LET all == StartGlobalFields \o StartPlayerFields(0) \o StartPlayerFields(1)
               \o StartPlayerFields(2) \o StartPlayerFields(3)
    IN \A a, b \in 1..Len(all) :
         a < b => \/ all[a].off + KindWidth(all[a].k) <= all[b].off
                  \/ all[b].off + KindWidth(all[b].k) <= all[a].off

EndFields == <<
    SF("method", "endmethod", "method", 1),
    SF("lras_initiator", "lras", "lras", 2),
    SF("placements.0", "placement", "placements", 3),
    SF("placements.1", "placement", "placements", 4),
    SF("placements.2", "placement", "placements", 5),
    SF("placements.3", "placement", "placements", 6) >>

(* enumerations rendered in JSON *)
PlayerTypes == {0, 1, 2}       \* a port is a player iff its type byte is one of these
PlayerTypeName(b) == CASE b = 0 -> "Human" [] b = 1 -> "Cpu" [] b = 2 -> "Demo"
UcfValues == {0, 1, 2}         \* 0 = off (absent), 1 = Ucf, 2 = Arduino; anything else is an error
UcfName(x) == CASE x = 1 -> "Ucf" [] x = 2 -> "Arduino"
Languages == {0, 1}
LanguageName(b) == CASE b = 0 -> "Japanese" [] b = 1 -> "English"
PortName(p) == CASE p = 0 -> "P1" [] p = 1 -> "P2" [] p = 2 -> "P3" [] p = 3 -> "P4"
IceClimbers == 14

=============================================================================
