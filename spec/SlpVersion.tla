---------------------------- MODULE SlpVersion ----------------------------
(***************************************************************************)
(* Slippi / Peppi version triples: order, gates, the writers' ceiling, and  *)
(* the Display / Parse string grammar.  (C09, C20; every other module uses  *)
(* Gte for its version gates.)                                              *)
(*                                                                         *)
(* A version is a triple <<major, minor, patch>> of bytes.  Gates compare   *)
(* (major, minor) only; the writers' ceiling compares the full triple.      *)
(***************************************************************************)
EXTENDS Integers, Sequences

Byte == 0..255
Version == Byte \X Byte \X Byte

\* the at-least test used by every version gate: (major, minor) >= (M, m) lexicographically
Gte(v, M, m) == v[1] > M \/ (v[1] = M /\ v[2] >= m)
Lt(v, M, m)  == ~Gte(v, M, m)

\* the integer encoding of (major, minor): gates are monotone because this is monotone
Enc2(M, m) == M * 256 + m
Enc3(v)    == (v[1] * 256 + v[2]) * 256 + v[3]

\* lexicographic order on triples
VLeq(a, b) == \/ a[1] < b[1]
              \/ (a[1] = b[1] /\ a[2] < b[2])
              \/ (a[1] = b[1] /\ a[2] = b[2] /\ a[3] <= b[3])
VLt(a, b) == VLeq(a, b) /\ a # b

\* the newest version the writers accept
MaxSupported == <<3, 16, 0>>
\* TRUE iff a writer must refuse the game
WriteRefused(v) == ~VLeq(v, MaxSupported)

\* the .slpp container's own format version; the reader refuses anything older
PeppiMin     == <<2, 0, 0>>
PeppiCurrent == <<2, 0, 0>>
PeppiReadRefused(v) == VLt(v, PeppiMin)

(***************************************************************************)
(* Display and Parse.  Strings are modelled as sequences of one-character   *)
(* strings so that TLC can enumerate them.                                  *)
(***************************************************************************)
Digits == <<"0","1","2","3","4","5","6","7","8","9">>
DigitChars == {Digits[i] : i \in 1..10}
DigitVal(c) == CHOOSE d \in 0..9 : Digits[d + 1] = c

RECURSIVE NatToChars(_)
NatToChars(n) == IF n < 10 THEN <<Digits[n + 1]>>
                 ELSE NatToChars(n \div 10) \o <<Digits[(n % 10) + 1]>>

Display(v) == NatToChars(v[1]) \o <<".">> \o NatToChars(v[2]) \o <<".">> \o NatToChars(v[3])

\* Split a character sequence on "." (like Rust's str::split: n dots give n+1 pieces, possibly empty)
RECURSIVE SplitDots(_, _, _)
SplitDots(s, cur, acc) ==
    IF s = <<>> THEN Append(acc, cur)
    ELSE IF Head(s) = "." THEN SplitDots(Tail(s), <<>>, Append(acc, cur))
    ELSE SplitDots(Tail(s), Append(cur, Head(s)), acc)
Split(s) == SplitDots(s, <<>>, <<>>)

\* value of a digit string, saturating above 255 (so 32-bit TLC integers are never exceeded)
RECURSIVE DigitsVal(_, _)
DigitsVal(s, acc) ==
    IF s = <<>> THEN acc
    ELSE LET a == acc * 10 + DigitVal(Head(s)) IN
         DigitsVal(Tail(s), IF a > 255 THEN 256 ELSE a)

\* Rust's u8::from_str: an optional leading "+", then one or more ASCII digits (leading zeros
\* allowed), value at most 255.  No sign "-", no whitespace, not empty.  -1 means "rejected".
ParseU8(s) ==
    LET body == IF s # <<>> /\ Head(s) = "+" THEN Tail(s) ELSE s IN
    IF body = <<>> THEN -1
    ELSE IF \E i \in 1..Len(body) : body[i] \notin DigitChars THEN -1
    ELSE LET n == DigitsVal(body, 0) IN IF n > 255 THEN -1 ELSE n

\* Parse: exactly three pieces, each a u8.  Result: a version, or <<>> for "rejected".
Parse(s) ==
    LET ps == Split(s) IN
    IF Len(ps) # 3 THEN <<>>
    ELSE LET a == ParseU8(ps[1]) b == ParseU8(ps[2]) c == ParseU8(ps[3]) IN
         IF a < 0 \/ b < 0 \/ c < 0 THEN <<>> ELSE <<a, b, c>>

\* What the property (C20) demands of Parse, stated without the grammar's lenient corners:
\* a string that is not "three dot-separated integers in 0..255" must be rejected.
\* A piece is "an integer in 0..255" at most when it is non-empty, all digits after an optional
\* sign, and its value is at most 255; so MustReject is implied by Parse(s) = <<>> and the
\* harness checks the real parser against Parse exactly on the enumerated strings.
MustReject(s) == Parse(s) = <<>>

=============================================================================
