---------------------------- MODULE SlpAdversary ----------------------------
(***************************************************************************)
(* Environment for robustness (C06) and unknown-event tolerance (C08):      *)
(* feeds ARBITRARY event sequences to the parser of SlpParser -- every      *)
(* event kind with right and wrong frame ids, occupied / unoccupied /       *)
(* out-of-range ports, follower flag on single-character ports, events      *)
(* that do not exist in the version, splitter variants, unknown and         *)
(* undeclared codes, duplicated Payloads / Game Start.                      *)
(*                                                                         *)
(* TLC explores the quotient of the state graph under a VIEW that erases    *)
(* payload tokens and the history (breadth-first, one worker), and an       *)
(* ACTION_CONSTRAINT prints every generated edge with the shortest history  *)
(* reaching its source state: one implementation test per transition.       *)
(***************************************************************************)
EXTENDS SlpWriter, TLC, Json

CONSTANTS Depth,      \* bound on the history length
          Kinds_      \* subset of event kinds to generate (lets configurations focus)

VARIABLES hist

avars == <<pvars, hist>>

E(k, id, p, f, x) == [k |-> k, id |-> id, p |-> p, f |-> f, x |-> x, tok |-> Len(hist) + 1]

Cur == IF ids = <<>> THEN FirstIndex - 1 ELSE Last(ids)
RelIds == {Cur, Cur + 1, Cur - 1, 1000}

\* ports: every real port, one out-of-range port byte
PortBytes == {0, 1, 2, 3, 4}
Followers == {0, 1}

UnknownCode == 64      \* 0x40: declared in the payload table, unknown to the library
UndeclaredCode == 65   \* 0x41: not in the payload table

Alphabet ==
    (IF "fs" \in Kinds_ THEN {E("fs", i, 0, 0, 0) : i \in RelIds} ELSE {})
    \cup (IF "pre" \in Kinds_ THEN {E("pre", i, p, f, 0) : i \in RelIds \ {1000}, p \in PortBytes, f \in Followers} ELSE {})
    \cup (IF "post" \in Kinds_ THEN {E("post", i, p, f, 0) : i \in {Cur, Cur + 1}, p \in PortBytes, f \in Followers} ELSE {})
    \cup (IF "item" \in Kinds_ THEN {E("item", i, 0, 0, 0) : i \in {Cur, Cur + 1}} ELSE {})
    \cup (IF "fe" \in Kinds_ THEN {E("fe", i, 0, 0, 0) : i \in {Cur, Cur + 1}} ELSE {})
    \cup (IF "ge" \in Kinds_ THEN {E("ge", 0, 0, 0, x) : x \in {0, 1}} ELSE {})
    \cup (IF "split" \in Kinds_
          THEN {E("split", 0, WrappedGecko, f, a) : f \in {0, 1}, a \in {0, 100, 512, 513}}
               \cup {E("split", 0, w, 1, 100) : w \in {200, WrappedPayloads, WrappedStart, 16, 55, 56, 58, 59, 60, 57}}
               \cup {E("split", 1, WrappedGecko, 1, 100)}
          ELSE {})
    \cup (IF "unk" \in Kinds_ THEN {E("unk", 0, 0, 0, UnknownCode)} ELSE {})
    \cup (IF "undeclared" \in Kinds_ THEN {E("undeclared", 0, 0, 0, UndeclaredCode)} ELSE {})
    \cup (IF "dup" \in Kinds_ THEN {E("dup_payloads", 0, 0, 0, 0), E("dup_start", 0, 0, 0, 0)} ELSE {})

\* a final splitter block that wraps a KNOWN frame-level / game-end code dispatches the accumulated
\* bytes (512 per block) to that event's parser; the payload is then 512 n arbitrary bytes.  The
\* model treats the outcome as "accepted or rejected, never a crash": it is routed to a reject so
\* that the edge is generated, and the harness only demands absence of panics on rejects.
WrappedKnown(e) == e.k = "split" /\ e.f = 1 /\ e.p \in {55, 56, 57, 58, 59, 60}

AInit == PInit /\ hist = <<>>

Feed(e) ==
    /\ hist' = Append(hist, e)
    /\ IF WrappedKnown(e) /\ e.id = 0 /\ e.x <= 512
       THEN /\ status = "run" /\ Reject("wrapped_known_event")
       ELSE Step(e)

ANext == status = "run" /\ Len(hist) < Depth /\ \E e \in Alphabet : Feed(e)

ASpec == AInit /\ [][ANext]_avars

(* ---- the token-erasing view ---- *)
Shape(s) == [i \in 1..Len(s) |-> IF s[i] = 0 THEN 0 ELSE 1]
AView == << ids, [c \in Chars |-> Shape(pre[c])], [c \in Chars |-> Shape(post[c])],
            Len(fstart), Len(fend), Len(items), off, gend # 0, Len(gecko), gactual, Len(acc), accActual,
            status, reason >>

(* ---- totality and progress (C06 at the level of the design) ---- *)
\* every event has exactly one outcome: accepted (one more event consumed) or rejected with a reason
Total == [][\/ (status' \in {"run", "ended"} /\ nev' = nev + 1 /\ reason' = "")
            \/ (status' = "err" /\ reason' # "" /\ nev' = nev)]_avars
\* C08 at the level of the design: an unknown event leaves the game untouched
UnknownHarmless == [][hist'[Len(hist')].k = "unk" => (UNCHANGED gameVars /\ status' = "run")]_avars

(* ---- export ---- *)
LensJson == [n \in 1..Len(CharSeq) |-> <<Len(pre[CharSeq[n]]), Len(post[CharSeq[n]])>>]
EdgeJson == [ reg |-> Regime, occ |-> [p \in 1..4 |-> Occ[p - 1]],
              hist |-> hist',
              out |-> status', reason |-> reason',
              rows |-> Len(ids'), lens |-> LensJson', nitems |-> Len(items'), noff |-> Len(off'),
              gend |-> gend' # 0, ngecko |-> Len(gecko') ]
ExportEdge == PrintT(<<"EDGE", ToJson(EdgeJson)>>)

=============================================================================
