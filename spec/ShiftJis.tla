------------------------------- MODULE ShiftJis -------------------------------
(***************************************************************************)
(* Name fields (C19): fixed-width byte fields decoded as Shift-JIS from the *)
(* first byte up to the first NUL; strict (no replacement characters);      *)
(* normalisation of the decoded string.                                     *)
(* Bytes are abstracted to the classes the decoder distinguishes.  Whether  *)
(* a structurally valid two-byte sequence is assigned a character is the    *)
(* code table's business (not modelled): the model predicts "err" for every *)
(* structurally invalid content and "ok" for structurally valid content     *)
(* built from assigned representatives.                                     *)
(***************************************************************************)
EXTENDS Integers, Sequences, FiniteSets, TLC, Json

CONSTANTS MaxLen

\* class          bytes          standalone        as second byte of a pair
\* "NUL"          00             terminator        invalid
\* "LOW"          01-3F          single            invalid
\* "HI"           40-7E          single            valid
\* "DEL"          7F             single            invalid
\* "X80"          80             single (U+0080)   valid
\* "LEAD1"        81-9F          lead              valid
\* "XA0"          A0             invalid           valid
\* "KANA"         A1-DF          single            valid
\* "LEAD2"        E0-FC          lead              valid
\* "BAD"          FD-FF          invalid           invalid
Classes == {"NUL", "LOW", "HI", "DEL", "X80", "LEAD1", "XA0", "KANA", "LEAD2", "BAD"}
Single == {"LOW", "HI", "DEL", "X80", "KANA"}
Lead == {"LEAD1", "LEAD2"}
ValidTrail == {"HI", "X80", "LEAD1", "XA0", "KANA", "LEAD2"}

VARIABLES field,   \* the field's content as a sequence of classes
          done
vars == <<field, done>>

Init == field = <<>> /\ done = FALSE
Grow == ~done /\ Len(field) < MaxLen /\ \E c \in Classes : field' = Append(field, c) /\ done' = FALSE
Stop == ~done /\ done' = TRUE /\ field' = field
Next == Grow \/ Stop
Spec == Init /\ [][Next]_vars

\* the bytes that count: everything before the first NUL
NulPos(s) == IF \E i \in 1..Len(s) : s[i] = "NUL" THEN CHOOSE i \in 1..Len(s) : s[i] = "NUL" /\ \A j \in 1..(i - 1) : s[j] # "NUL"
             ELSE Len(s) + 1
Cut(s) == SubSeq(s, 1, NulPos(s) - 1)

\* the decoder as an automaton over the cut content: "start" / "lead" (a lead byte is pending)
RECURSIVE Run(_, _)
Run(s, st) ==
    IF s = <<>> THEN (IF st = "lead" THEN "err" ELSE "ok")       \* a dangling lead byte is an error
    ELSE IF st = "lead" THEN (IF Head(s) \in ValidTrail THEN Run(Tail(s), "start") ELSE "err")
    ELSE IF Head(s) \in Single THEN Run(Tail(s), "start")
    ELSE IF Head(s) \in Lead THEN Run(Tail(s), "lead")
    ELSE "err"                                                    \* XA0, BAD (NUL cannot occur after the cut)
Decode(s) == Run(Cut(s), "start")

\* declarative counterpart: the content splits into singles and (lead, valid trail) pairs
RECURSIVE Splits(_)
Splits(s) == IF s = <<>> THEN TRUE
             ELSE \/ (Head(s) \in Single /\ Splits(Tail(s)))
                  \/ (Len(s) >= 2 /\ Head(s) \in Lead /\ s[2] \in ValidTrail /\ Splits(Tail(Tail(s))))

AutomatonIsGrammar == (Decode(field) = "ok") <=> Splits(Cut(field))
\* bytes after the first NUL never matter
NulIndependence == \A c \in Classes : Decode(field \o <<"NUL", c>>) = Decode(field \o <<"NUL">>)
                   /\ Decode(field \o <<"NUL">>) = Decode(Cut(field))
Inv == AutomatonIsGrammar /\ NulIndependence

Export == done => PrintT(<<"SJIS", ToJson([cls |-> field, out |-> Decode(field), cut |-> Len(Cut(field))])>>)

(* ---- normalisation of a decoded character (code points as integers) ---- *)
FixChar(c) == IF c >= 65281 /\ c <= 65374 THEN c - 65248      \* U+FF01..U+FF5E -> U+0021..U+007E
              ELSE IF c = 12288 THEN 32                         \* U+3000 ideographic space -> space
              ELSE IF c = 8217 THEN 39                          \* U+2019 -> '
              ELSE IF c = 8221 THEN 34                          \* U+201D -> "
              ELSE c
Boundary == {0, 32, 33, 34, 39, 126, 127, 8216, 8217, 8218, 8220, 8221, 8222, 12287, 12288, 12289,
             65280, 65281, 65282, 65373, 65374, 65375, 65376, 1114111}
FixIdempotent == \A c \in Boundary : FixChar(FixChar(c)) = FixChar(c)
FixImage == \A c \in 65281..65374 : FixChar(c) = 33 + (c - 65281)
FixRanges == << <<65281, 65374, -65248>>, <<12288, 12288, 32 - 12288>>, <<8217, 8217, 39 - 8217>>, <<8221, 8221, 34 - 8221>> >>
ASSUME FixIdempotent /\ FixImage
ASSUME \A r \in {FixRanges[i] : i \in 1..Len(FixRanges)} : \A c \in {r[1], r[2]} : FixChar(c) = c + r[3]
ASSUME PrintT(<<"SJISFIX", ToJson([ranges |-> FixRanges])>>)
=============================================================================
