"""Shared machinery of bin/check: build the harness, run TLC, run the harness, match known
findings, write evidence.  Exit codes: 0 held, 1 violation (VIOLATION line printed), 2 tool error."""
import hashlib
import json
import os
import re
import shutil
import subprocess
import sys
import time

VERIF = os.path.dirname(os.path.dirname(os.path.abspath(__file__)))
SPEC = os.path.join(VERIF, "spec")
WORK = os.path.join(VERIF, "work")
HARNESS = os.path.join(VERIF, "harness")
# Overrides used only by bin/seedtest (checks against a scratch worktree with a seeded change); the registered
# commands never set them, so they always build and test /repo's working tree.
PV = os.environ.get("VERIF_PV") or os.path.join(WORK, "target", "release", "pv")
TLA_JAR = "/opt/veriftools/tla/tla2tools.jar:/opt/veriftools/tla/CommunityModules-deps.jar"
REPO = os.environ.get("VERIF_REPO") or "/repo"
EVIDENCE_DIR = os.environ.get("VERIF_EVIDENCE_DIR") or os.path.join(VERIF, "evidence")


class ToolError(Exception):
    pass


def log(*a):
    print(*a, file=sys.stderr, flush=True)


def sh(cmd, **kw):
    return subprocess.run(cmd, shell=isinstance(cmd, str), **kw)


def build_harness():
    """cargo build of the harness; peppi is a path dependency on /repo, so this always compiles the
    repository's current working tree (with --cfg peppi_verif)."""
    if os.environ.get("VERIF_PV"):
        return
    t = time.time()
    lock = os.path.join(HARNESS, "Cargo.lock")
    if not os.path.exists(lock):
        shutil.copy(os.path.join(REPO, "Cargo.lock"), lock)
    env = dict(os.environ, CARGO_NET_OFFLINE="true")
    p = sh(["cargo", "build", "--release", "--offline"], cwd=HARNESS, env=env,
           stdout=subprocess.PIPE, stderr=subprocess.STDOUT, text=True)
    if p.returncode != 0:
        # a Cargo.lock that no longer matches (dependency set of /repo changed): retry once from /repo's lock
        shutil.copy(os.path.join(REPO, "Cargo.lock"), lock)
        p = sh(["cargo", "build", "--release", "--offline"], cwd=HARNESS, env=env,
               stdout=subprocess.PIPE, stderr=subprocess.STDOUT, text=True)
    if p.returncode != 0:
        log(p.stdout[-4000:])
        raise ToolError("harness build failed")
    log("[build] harness built in %.1fs" % (time.time() - t))


def spec_hash(files):
    h = hashlib.sha256()
    for f in files:
        with open(os.path.join(SPEC, f), "rb") as fh:
            h.update(fh.read())
    return h.hexdigest()[:16]


class TlcResult:
    def __init__(self):
        self.generated = 0
        self.distinct = 0
        self.depth = 0
        self.ok = False
        self.out_path = None
        self.wall = 0.0
        self.coverage = {}
        self.error = None
        self.cmd = ""


def run_tlc(module, cfg_text, out_path, workers=1, timeout=900, xmx="4g", extra=None, simulate=None,
            allow_violation=False, env_extra=None, xss=None, deque=False):
    """Runs TLC on spec/<module>.tla (or spec/mc, spec/trace) with the given cfg text.
    Output goes to out_path (the harness reads exported lines from it)."""
    run_dir = os.path.dirname(out_path)
    os.makedirs(run_dir, exist_ok=True)
    tag = os.path.splitext(os.path.basename(out_path))[0]
    cfg_path = os.path.join(run_dir, tag + ".cfg")
    with open(cfg_path, "w") as f:
        f.write(cfg_text)
    mod_path = None
    for sub in ("mc", "trace", ""):
        p = os.path.join(SPEC, sub, module + ".tla")
        if os.path.exists(p):
            mod_path = p
            break
    if mod_path is None:
        raise ToolError("no module " + module)
    libs = os.pathsep.join([SPEC, os.path.join(SPEC, "mc"), os.path.join(SPEC, "trace")])
    # (TLC leaves an empty tlc-* directory per run in java.io.tmpdir: keep those inside the run directory, not in /tmp)
    jtmp = os.path.join(run_dir, "jtmp")
    os.makedirs(jtmp, exist_ok=True)
    jopts = ["-XX:+UseParallelGC", "-Xmx" + xmx, "-DTLA-Library=" + libs, "-Djava.io.tmpdir=" + jtmp]
    if xss:
        jopts.append("-Xss" + xss)
    if deque:
        jopts.append("-Dtlc2.tool.queue.IStateQueue=StateDeque")
    cmd = ["java"] + jopts + ["-cp", TLA_JAR, "tlc2.TLC", "-workers", str(workers),
                               "-metadir", os.path.join(run_dir, "md-" + tag), "-cleanup", "-noGenerateSpecTE",
                               "-config", cfg_path]
    if simulate:
        cmd += ["-simulate", simulate]
    if extra:
        cmd += extra
    cmd += [mod_path]
    env = dict(os.environ)
    env.pop("JAVA_TOOL_OPTIONS", None)
    if env_extra:
        env.update(env_extra)
    res = TlcResult()
    res.cmd = " ".join(cmd)
    res.out_path = out_path
    t = time.time()
    with open(out_path, "w") as out:
        try:
            p = subprocess.run(cmd, stdout=out, stderr=subprocess.STDOUT, env=env, timeout=timeout, cwd=run_dir)
        except subprocess.TimeoutExpired:
            raise ToolError("TLC timed out on %s after %ds" % (module, timeout))
    res.wall = time.time() - t
    shutil.rmtree(os.path.join(run_dir, "md-" + tag), ignore_errors=True)
    # parse the tail statistics (skip exported lines)
    err_lines = []
    with open(out_path, errors="replace") as f:
        for line in f:
            if line.startswith('<<"'):
                continue
            m = re.match(r"(\d[\d,]*) states generated, (\d[\d,]*) distinct states found", line)
            if m:
                res.generated = int(m.group(1).replace(",", ""))
                res.distinct = int(m.group(2).replace(",", ""))
            m = re.match(r"The depth of the complete state graph search is (\d+)", line)
            if m:
                res.depth = int(m.group(1))
            if "Model checking completed. No error has been found." in line:
                res.ok = True
            if simulate and ("Finished in" in line):
                res.ok = res.error is None
            if line.startswith("Error:") or "is violated" in line or "Invariant" in line and "violated" in line:
                err_lines.append(line.strip())
                res.error = res.error or line.strip()
            m = re.match(r"The number of states generated: (\d+)", line)
            if m:
                res.generated = int(m.group(1))
    if simulate and res.error is None and p.returncode == 0:
        res.ok = True
        res.distinct = max(res.distinct, res.generated)
    if not res.ok and not allow_violation:
        raise ToolError("TLC failed on %s: %s (see %s)" % (module, res.error or "exit %d" % p.returncode, out_path))
    log("[tlc] %s: %d states, %d distinct, depth %d, %.1fs%s" % (
        module, res.generated, res.distinct, res.depth, res.wall, "" if res.ok else " (VIOLATED: %s)" % res.error))
    return res


def tlaps_check(module, timeout=900):
    """Checks spec/proofs/<module>.tla with the TLA+ proof system; returns obligation counts."""
    # a private copy of the proof modules: tlapm keeps its cache and fingerprints next to the module, and two checks
    # (C09, C20) that run at the same time must not share them
    d = os.path.join(os.environ.get("VERIF_RUN_ROOT") or WORK, "tlaps-%d" % os.getpid())
    shutil.rmtree(d, ignore_errors=True)
    shutil.copytree(os.path.join(SPEC, "proofs"), d)
    t = time.time()
    try:
        p = subprocess.run(["tlapm", "--threads", "4", "--cleanfp", module + ".tla"], cwd=d, stdout=subprocess.PIPE, stderr=subprocess.STDOUT,
                           text=True, timeout=timeout)
    except subprocess.TimeoutExpired:
        shutil.rmtree(d, ignore_errors=True)
        raise ToolError("tlapm timed out on " + module)
    shutil.rmtree(d, ignore_errors=True)
    m = re.search(r"All (\d+) obligations proved", p.stdout)
    if m:
        n = int(m.group(1))
        log("[tlapm] %s: %d obligations proved, %.1fs" % (module, n, time.time() - t))
        return {"module": module, "obligations": n, "discharged": n, "wall_s": round(time.time() - t, 1)}
    m = re.search(r"(\d+)/(\d+) obligations failed", p.stdout)
    if m:
        raise ToolError("tlapm: %s of %s obligations of %s failed" % (m.group(1), m.group(2), module))
    raise ToolError("tlapm failed on %s: %s" % (module, p.stdout[-500:]))


def apalache_inductive(module, cinit="ConstInit", init="Init", indinit="IndInit", inv="IndInv", goal=None, timeout=900):
    """Discharges an inductive invariant with Apalache: Init => Inv (length 0), Inv /\\ Next => Inv' (length 1 from IndInit),
    and optionally Inv => goal."""
    d = os.path.join(SPEC, "apalache")
    out_dir = os.path.join(WORK, "apalache-%d" % os.getpid())
    steps = [("base", ["--init=" + init, "--inv=" + inv, "--length=0"]), ("step", ["--init=" + indinit, "--inv=" + inv, "--length=1"])]
    if goal:
        steps.append(("goal", ["--init=" + indinit, "--inv=" + goal, "--length=0"]))
    t = time.time()
    res = {}
    for name, args in steps:
        try:
            p = subprocess.run(["apalache-mc", "check", "--cinit=" + cinit, "--out-dir=" + out_dir] + args + [module + ".tla"], cwd=d,
                               stdout=subprocess.PIPE, stderr=subprocess.STDOUT, text=True, timeout=timeout)
        except subprocess.TimeoutExpired:
            raise ToolError("apalache timed out on %s (%s)" % (module, name))
        ok = "The outcome is: NoError" in p.stdout
        res[name] = ok
        if not ok:
            shutil.rmtree(out_dir, ignore_errors=True)
            raise ToolError("apalache: %s of %s failed: %s" % (name, module, p.stdout[-400:]))
    shutil.rmtree(out_dir, ignore_errors=True)
    res["wall_s"] = round(time.time() - t, 1)
    log("[apalache] %s: inductive invariant %s discharged (%s), %.1fs" % (module, inv, ", ".join(k for k in res if k != "wall_s"), time.time() - t))
    return res


def ensure_layout():
    """The TLC-evaluated layout (independent of /repo): cached by the hash of the spec modules."""
    files = ["SlpVersion.tla", "SlpLayout.tla", "mc/MC_Layout.tla"]
    h = spec_hash(files)
    cache = os.path.join(WORK, "cache")
    os.makedirs(cache, exist_ok=True)
    path = os.path.join(cache, "layout-%s.txt" % h)
    stats = os.path.join(cache, "layout-%s.json" % h)
    if os.path.exists(path) and os.path.exists(stats):
        return path, json.load(open(stats))
    tmp = os.path.join(cache, "layout-%s.out" % h)
    r = run_tlc("MC_Layout", "INIT Init\nNEXT Next\nCHECK_DEADLOCK FALSE\n", tmp, workers=1, timeout=600)
    with open(tmp) as f, open(path, "w") as o:
        n = 0
        checked = None
        for line in f:
            if line.startswith('<<"LAYOUT"') or line.startswith('<<"BLOCKS"'):
                o.write(line)
                n += 1
            if line.startswith('<<"NCHECKED"'):
                checked = [int(x) for x in re.findall(r"\d+", line)]
    st = {"layout_lines": n, "versions_checked": checked[0] if checked else 0,
          "classes": checked[1] if checked else 0, "wall_s": r.wall}
    json.dump(st, open(stats, "w"))
    os.remove(tmp)
    return path, st


def ambient_env_names():
    """Names of the environment variables the library under test reads (literal arguments of env::var / env::var_os
    in its sources).  The specification has no such input: whatever the library reads from its process environment
    is a configuration dimension the checks then explore (currently there is none)."""
    import re, glob
    names, idents, consts = set(), set(), {}
    for f in glob.glob(os.path.join(REPO, "src", "**", "*.rs"), recursive=True):
        try:
            txt = open(f, errors="replace").read()
        except OSError:
            continue
        names.update(re.findall(r'env::var(?:_os)?\(\s*"([A-Za-z0-9_]+)"', txt))
        # the name given through a constant: env::var(NAME) ... const NAME: &str = "..."
        idents.update(re.findall(r'env::var(?:_os)?\(\s*&?([A-Za-z_][A-Za-z0-9_:]*)\s*\)', txt))
        for k, v in re.findall(r'(?:const|static)\s+([A-Z_][A-Z0-9_]*)\s*:\s*&(?:\'static\s+)?str\s*=\s*"([^"]+)"', txt):
            consts[k] = v
    for i in idents:
        i = i.split("::")[-1]
        if i in consts:
            names.add(consts[i])
    return sorted(names)


def run_pv(args, timeout=3600, env_extra=None):
    """Runs the harness; returns (violations, summary)."""
    cmd = [PV] + [str(a) for a in args]
    t = time.time()
    try:
        p = subprocess.run(cmd, stdout=subprocess.PIPE, stderr=subprocess.PIPE, text=True, timeout=timeout, cwd=VERIF,
                           env=dict(os.environ, **env_extra) if env_extra else None)
    except subprocess.TimeoutExpired:
        raise ToolError("harness timed out: " + " ".join(cmd[:3]))
    viols, summary = [], None
    for line in p.stdout.splitlines():
        try:
            d = json.loads(line)
        except Exception:
            continue
        if d.get("t") == "viol":
            viols.append(d)
        elif d.get("t") == "summary":
            summary = d
    if p.returncode != 0 or summary is None:
        log(p.stderr[-3000:])
        e = ToolError("harness failed (exit %d): %s" % (p.returncode, " ".join(cmd[:4])))
        e.viols = viols   # what it reported before it failed is not lost
        raise e
    log("[pv] %s: %d evaluations, %d violations, %.1fs" % (args[0], summary["evaluations"], len(viols), time.time() - t))
    return viols, summary


def load_findings():
    p = os.path.join(VERIF, "known_findings.json")
    if not os.path.exists(p):
        return []
    return json.load(open(p))["findings"]


def match_finding(prop, v, findings):
    for f in findings:
        if f.get("status") != "finding" or f.get("property") != prop:
            continue
        m = f["match"]
        if "check" in m and m["check"] != v["check"]:
            continue
        if "kind" in m and m["kind"] != v["kind"]:
            continue
        if any(c not in v["class"] for c in m.get("class_contains", [])):
            continue
        if "detail_contains" in m and m["detail_contains"] not in v["detail"]:
            continue
        return f
    return None


CURRENT = None


class Check:
    """One run of one property's check."""

    def __init__(self, prop, tier, seed):
        self.prop = prop
        self.tier = tier
        self.seed = seed
        global CURRENT
        CURRENT = self
        self.t0 = time.time()
        self.run_dir = os.path.join(os.environ.get("VERIF_RUN_ROOT") or WORK, "run-%s-%d" % (prop, os.getpid()))
        shutil.rmtree(self.run_dir, ignore_errors=True)
        os.makedirs(self.run_dir)
        self.replay_dir = os.path.join(os.environ.get("VERIF_RUN_ROOT") or WORK, "replays", prop)
        os.makedirs(self.replay_dir, exist_ok=True)
        self.tlc = []
        self.viols = []
        self.summaries = []
        self.samples = []
        self.extra = {}
        self.assumptions = []
        self.impl_traces = 0
        self.exhaustive = False

    def path(self, name):
        return os.path.join(self.run_dir, name)

    def run_tlc(self, module, cfg, name=None, **kw):
        out = self.path((name or module) + ".out")
        r = run_tlc(module, cfg, out, **kw)
        self.tlc.append({"module": module, "name": name or module, "states": r.generated, "distinct": r.distinct,
                         "depth": r.depth, "wall_s": round(r.wall, 1), "ok": r.ok})
        return r

    def pv(self, args, label=None, timeout=3600, env_extra=None):
        if getattr(self, "hang_seen", False):
            # the code under test hangs (reported): every further harness run would wait for its deadlines again
            log("[pv] %s skipped: a hang was already reported in this run" % (label or args[0]))
            return [], {"evaluations": 0, "distinct": 0, "distinct_nontrivial": 0, "violations": 0, "samples": [], "label": label or args[0],
                        "extra": {"skipped": "a hang was already reported"}}
        try:
            viols, summary = run_pv(args + ["--replay-dir", self.replay_dir, "--seed", self.seed], timeout=timeout, env_extra=env_extra)
        except ToolError as e:
            self.viols += getattr(e, "viols", [])
            raise
        if env_extra:
            for v in viols:
                v["detail"] = "%s [with %s in the environment]" % (v["detail"], ", ".join("%s=%s" % kv for kv in sorted(env_extra.items())))
        if any(v.get("kind") == "hang" for v in viols):
            self.hang_seen = True
        self.viols += viols
        summary["label"] = label or args[0]
        self.summaries.append(summary)
        for s in summary.get("samples", [])[:2]:
            if len(self.samples) < 6:
                self.samples.append(s)
        return viols, summary

    def finish(self, level="model_checking", rule="", level_extra=None):
        findings = load_findings()
        known, fresh = {}, []
        for v in self.viols:
            f = match_finding(self.prop, v, findings)
            if f:
                known.setdefault(f["id"], [f, 0])[1] += 1
            else:
                fresh.append(v)
        for fid, (f, n) in sorted(known.items()):
            print("KNOWN-FINDING: property=%s %s (%s; %d inputs hit it in this run)" % (self.prop, f["what"], fid, n))
        seen = set()
        for v in fresh:
            sig = (v["check"], v["kind"], v["class"])
            if sig in seen:
                continue
            seen.add(sig)
            print("VIOLATION property=%s replay=%s check=%s kind=%s class=%s detail=%s" % (
                self.prop, v.get("replay") or "-", v["check"], v["kind"], v["class"], v["detail"][:300].replace("\n", " ")))
            if len(seen) >= 25:
                break
        evals = sum(s["evaluations"] for s in self.summaries)
        distinct_nt = sum(s["distinct_nontrivial"] for s in self.summaries)
        cov = {
            "states": sum(t["distinct"] for t in self.tlc),
            "transitions": sum(t["states"] for t in self.tlc),
            "traces_validated_against_impl": self.impl_traces if self.impl_traces else evals,
            "samples": self.samples or [{"note": "no sample recorded"}],
            "evaluations": evals,
            "distinct_nontrivial": distinct_nt,
            "rule": rule,
            "exhaustive": self.exhaustive,
            "tlc_runs": self.tlc,
            "harness_runs": [{k: s[k] for k in ("label", "evaluations", "distinct", "distinct_nontrivial", "violations", "extra")}
                             for s in self.summaries],
            "known_findings_hit": {fid: n for fid, (f, n) in known.items()},
        }
        cov.update(self.extra)
        if level_extra:
            cov.update(level_extra)
        ev = {
            "property_id": self.prop,
            "tier": self.tier,
            "seed": self.seed,
            "level": level,
            "coverage": cov,
            "assumptions": self.assumptions,
            "wall_s": round(time.time() - self.t0, 1),
            "violations": len(fresh),
        }
        os.makedirs(EVIDENCE_DIR, exist_ok=True)
        with open(os.path.join(EVIDENCE_DIR, self.prop + ".json"), "w") as f:
            json.dump(ev, f, indent=1, sort_keys=True)
            f.write("\n")
        shutil.rmtree(self.run_dir, ignore_errors=True)
        log("[%s] %s tier: %d evaluations, %d new violations, %d known findings, %.1fs" % (
            self.prop, self.tier, evals, len(fresh), len(known), time.time() - self.t0))
        return 1 if fresh else 0
